package gtfs

// Demonstrations of the genuine defects D1..D16 (DESIGN.md §6) against the real code.
// Run with:  /verif/findings/run.sh   (injects this file with go test -overlay; nothing is written to /repo)

import (
	"fmt"
	"reflect"
	"testing"
	"time"

	"github.com/jamespfennell/gtfs/extensions/nyctalerts"
	gtfsrt "github.com/jamespfennell/gtfs/proto"
	"google.golang.org/protobuf/proto"
)

func fzip(files map[string]string) []byte {
	z := newZipBuilderWithDefaults()
	for k, v := range files {
		z.add(k, v)
	}
	return z.build()
}

func mustParse(t *testing.T, b []byte) *Static {
	t.Helper()
	var s *Static
	var err error
	func() {
		defer func() {
			if r := recover(); r != nil {
				t.Fatalf("ParseStatic panicked: %v", r)
			}
		}()
		s, err = ParseStatic(b, ParseStaticOptions{})
	}()
	if err != nil {
		t.Fatalf("ParseStatic error: %v", err)
	}
	return s
}

func TestD01_StopTimesUnknownTripAfterKnown(t *testing.T) {
	mustParse(t, fzip(map[string]string{
		"trips.txt":      "route_id,service_id,trip_id\nroute_id,service_id,a",
		"stop_times.txt": "stop_id,trip_id,arrival_time,departure_time,stop_sequence\nstop_id,a,04:05:06,04:05:06,1\nstop_id,nosuchtrip,04:05:06,04:05:06,2",
	}))
}

func TestD02_ShapesNonNumericCoordinate(t *testing.T) {
	mustParse(t, fzip(map[string]string{
		"shapes.txt": "shape_id,shape_pt_lat,shape_pt_lon,shape_pt_sequence\ns,abc,1.0,1",
	}))
}

func TestD03_OneSidedArrivalDeparture(t *testing.T) {
	s := mustParse(t, fzip(map[string]string{
		"trips.txt":      "route_id,service_id,trip_id\nroute_id,service_id,a",
		"stop_times.txt": "stop_id,trip_id,arrival_time,departure_time,stop_sequence\nstop_id,a,10:00:00,,1\nstop_id,a,,11:00:00,2",
	}))
	st := s.Trips[0].StopTimes
	if len(st) != 2 {
		t.Fatalf("want 2 stop times, got %d", len(st))
	}
	if st[0].ArrivalTime != 10*time.Hour || st[0].DepartureTime != 10*time.Hour {
		t.Errorf("arrival only: got arrival=%v departure=%v, want both 10h", st[0].ArrivalTime, st[0].DepartureTime)
	}
	if st[1].ArrivalTime != 11*time.Hour || st[1].DepartureTime != 11*time.Hour {
		t.Errorf("departure only: got arrival=%v departure=%v, want both 11h", st[1].ArrivalTime, st[1].DepartureTime)
	}
}

func TestD04_BlankCellEqualsAbsentColumn(t *testing.T) {
	s := mustParse(t, fzip(map[string]string{
		"routes.txt":     "route_id,route_type,route_color,route_text_color\nroute_id,3,,",
		"trips.txt":      "route_id,service_id,trip_id\nroute_id,service_id,a",
		"stop_times.txt": "stop_id,trip_id,arrival_time,departure_time,stop_sequence,timepoint\nstop_id,a,10:00:00,10:00:00,1,",
	}))
	if s.Routes[0].Color != "FFFFFF" || s.Routes[0].TextColor != "000000" {
		t.Errorf("blank colour cells: got %q/%q, want FFFFFF/000000", s.Routes[0].Color, s.Routes[0].TextColor)
	}
	if !s.Trips[0].StopTimes[0].ExactTimes {
		t.Errorf("blank timepoint: want exact times")
	}
}

func TestD05_RejectedStopRowIsInert(t *testing.T) {
	s := mustParse(t, fzip(map[string]string{
		"stops.txt": "stop_id,parent_station\ns1,\ns2,\n,s2",
	}))
	if s.Stops[0].Parent != nil {
		t.Errorf("stop s1 got parent %q from a rejected row", s.Stops[0].Parent.Id)
	}
}

func TestD06_ParentCycle(t *testing.T) {
	s := mustParse(t, fzip(map[string]string{
		"stops.txt": "stop_id,parent_station\ns1,s1\ns2,s3\ns3,s2",
	}))
	for i := range s.Stops {
		done := make(chan bool, 1)
		go func(st *Stop) { st.Root(); done <- true }(&s.Stops[i])
		select {
		case <-done:
		case <-time.After(2 * time.Second):
			t.Fatalf("Root() of stop %q does not terminate (cyclic parent links)", s.Stops[i].Id)
		}
	}
}

func TestD07_DuplicateStopIDParent(t *testing.T) {
	s := mustParse(t, fzip(map[string]string{
		"stops.txt": "stop_id,parent_station\np,\nd,p\nd,",
	}))
	// row 2 ("d" with parent p) must have the parent, row 3 ("d" without) must not
	if s.Stops[1].Parent == nil || s.Stops[2].Parent != nil {
		t.Errorf("duplicate ids: row2 parent=%v row3 parent=%v; want row2 -> p, row3 -> nil", s.Stops[1].Parent != nil, s.Stops[2].Parent != nil)
	}
}

func TestD08_ServicesOrderDeterministic(t *testing.T) {
	b := fzip(map[string]string{
		"calendar.txt": "service_id,monday,tuesday,wednesday,thursday,friday,saturday,sunday,start_date,end_date\n" +
			"s1,0,0,0,0,0,0,0,20220504,20220507\ns2,0,0,0,0,0,0,0,20220504,20220507\ns3,0,0,0,0,0,0,0,20220504,20220507\ns4,0,0,0,0,0,0,0,20220504,20220507",
		"trips.txt": "route_id,service_id,trip_id\nroute_id,s1,a",
	})
	first := ""
	for i := 0; i < 40; i++ {
		s := mustParse(t, b)
		order := ""
		for _, sv := range s.Services {
			order += sv.Id + ","
		}
		if first == "" {
			first = order
		} else if order != first {
			t.Fatalf("Services order differs between runs: %s vs %s", first, order)
		}
	}
}

func rtFeed(entities ...*gtfsrt.FeedEntity) []byte {
	v := "2.0"
	ts := uint64(1000)
	m := &gtfsrt.FeedMessage{Header: &gtfsrt.FeedHeader{GtfsRealtimeVersion: &v, Timestamp: &ts}, Entity: entities}
	b, err := proto.Marshal(m)
	if err != nil {
		panic(err)
	}
	return b
}

func TestD09_VehiclesOrderDeterministic(t *testing.T) {
	var es []*gtfsrt.FeedEntity
	for i := 0; i < 5; i++ {
		id := fmt.Sprintf("e%d", i)
		vid := fmt.Sprintf("v%d", i)
		es = append(es, &gtfsrt.FeedEntity{Id: &id, Vehicle: &gtfsrt.VehiclePosition{Vehicle: &gtfsrt.VehicleDescriptor{Id: &vid}}})
	}
	b := rtFeed(es...)
	first := ""
	for i := 0; i < 40; i++ {
		r, err := ParseRealtime(b, &ParseRealtimeOptions{})
		if err != nil {
			t.Fatal(err)
		}
		order := ""
		for _, v := range r.Vehicles {
			order += v.ID.ID + ","
		}
		if first == "" {
			first = order
		} else if order != first {
			t.Fatalf("Vehicles order differs between runs: %s vs %s", first, order)
		}
	}
}

func TestD10_IdlessVehicleLinked(t *testing.T) {
	id := "e1"
	tid := "trip1"
	stop := "S"
	b := rtFeed(&gtfsrt.FeedEntity{Id: &id, Vehicle: &gtfsrt.VehiclePosition{Trip: &gtfsrt.TripDescriptor{TripId: &tid}, StopId: &stop}})
	r, err := ParseRealtime(b, &ParseRealtimeOptions{})
	if err != nil {
		t.Fatal(err)
	}
	if len(r.Trips) != 1 || len(r.Vehicles) != 1 {
		t.Fatalf("want 1 trip and 1 vehicle, got %d/%d", len(r.Trips), len(r.Vehicles))
	}
	if r.Trips[0].Vehicle == nil || r.Vehicles[0].Trip == nil {
		t.Fatalf("association lost: trip.Vehicle=%v vehicle.Trip=%v", r.Trips[0].Vehicle != nil, r.Vehicles[0].Trip != nil)
	}
	if r.Trips[0].Vehicle.StopID == nil || *r.Trips[0].Vehicle.StopID != "S" || r.Vehicles[0].Trip.ID.ID != "trip1" {
		t.Errorf("links do not lead to the full objects")
	}
	if r.Trips[0].Vehicle.Trip == nil || r.Trips[0].Vehicle.Trip.ID.ID != "trip1" || r.Vehicles[0].Trip.Vehicle == nil {
		t.Errorf("links do not lead back to each other")
	}
}

func TestD11a_OptionsNotWritten(t *testing.T) {
	opts := &ParseRealtimeOptions{}
	if _, err := ParseRealtime(rtFeed(), opts); err != nil {
		t.Fatal(err)
	}
	if opts.Extension != nil {
		t.Errorf("ParseRealtime wrote to the caller's options (Extension was nil, now %T)", opts.Extension)
	}
}

func TestD11b_ExtensionReuseAcrossParses(t *testing.T) {
	id := "A27N#EL123"
	txt := "x"
	mk := func() []byte {
		idc := id
		return rtFeed(&gtfsrt.FeedEntity{Id: &idc, Alert: &gtfsrt.Alert{HeaderText: &gtfsrt.TranslatedString{Translation: []*gtfsrt.TranslatedString_Translation{{Text: &txt}}}}})
	}
	opts := &ParseRealtimeOptions{Extension: nyctalerts.Extension(nyctalerts.ExtensionOpts{ElevatorAlertsDeduplicationPolicy: nyctalerts.DeduplicateInStation})}
	r1, err := ParseRealtime(mk(), opts)
	if err != nil {
		t.Fatal(err)
	}
	r2, err := ParseRealtime(mk(), opts)
	if err != nil {
		t.Fatal(err)
	}
	if !reflect.DeepEqual(len(r1.Alerts), len(r2.Alerts)) {
		t.Errorf("same bytes, same options: first parse %d alerts, second parse %d alerts", len(r1.Alerts), len(r2.Alerts))
	}
}

func TestD13_FallbackRoutesOrderDeterministic(t *testing.T) {
	id := "a1"
	var sel []*gtfsrt.EntitySelector
	for _, r := range []string{"A", "B", "C", "D", "E"} {
		r := r
		sel = append(sel, &gtfsrt.EntitySelector{Trip: &gtfsrt.TripDescriptor{RouteId: &r}})
	}
	b := rtFeed(&gtfsrt.FeedEntity{Id: &id, Alert: &gtfsrt.Alert{InformedEntity: sel}})
	first := ""
	for i := 0; i < 40; i++ {
		r, err := ParseRealtime(b, &ParseRealtimeOptions{})
		if err != nil {
			t.Fatal(err)
		}
		order := ""
		for _, e := range r.Alerts[0].InformedEntities {
			order += *e.RouteID + ","
		}
		if first == "" {
			first = order
		} else if order != first {
			t.Fatalf("fallback informed routes order differs between runs: %s vs %s", first, order)
		}
	}
}

func TestD15_WarningDescribesItsRow(t *testing.T) {
	s := mustParse(t, fzip(map[string]string{
		"agency.txt": "agency_id,agency_name,agency_url,agency_timezone\nbad1,,u1,UTC\na,b,c,d\nbad2,,u2,UTC",
	}))
	if len(s.Warnings) != 2 {
		t.Fatalf("want 2 warnings, got %d", len(s.Warnings))
	}
	w := s.Warnings[0]
	if w.RowNumber != 1 || len(w.RowContent) != 4 || w.RowContent[0] != "bad1" || w.RowContent[2] != "u1" {
		t.Errorf("first warning: row %d content %v; want row 1 [bad1  u1 UTC]", w.RowNumber, w.RowContent)
	}
}

func TestD16_PickupDropOffDefault(t *testing.T) {
	s := mustParse(t, fzip(map[string]string{
		"trips.txt":      "route_id,service_id,trip_id\nroute_id,service_id,a",
		"stop_times.txt": "stop_id,trip_id,arrival_time,departure_time,stop_sequence,pickup_type\nstop_id,a,10:00:00,10:00:00,1,",
	}))
	st := s.Trips[0].StopTimes[0]
	if st.PickupType != PickupDropOffPolicy_Yes || st.DropOffType != PickupDropOffPolicy_Yes {
		t.Errorf("blank pickup_type / absent drop_off_type: got %v/%v, want regular (ALLOWED)", st.PickupType, st.DropOffType)
	}
	if st.ContinuousPickup != PickupDropOffPolicy_No || st.ContinuousDropOff != PickupDropOffPolicy_No {
		t.Errorf("absent continuous pickup/drop-off must stay 'none'")
	}
}

package journal

import (
	"testing"
	"time"

	"github.com/jamespfennell/gtfs"
)

type sliceSource struct{ feeds []*gtfs.Realtime }

func (s *sliceSource) Next() *gtfs.Realtime {
	if len(s.feeds) == 0 {
		return nil
	}
	f := s.feeds[0]
	s.feeds = s.feeds[1:]
	return f
}

func build(t *testing.T, feeds ...*gtfs.Realtime) *Journal {
	t.Helper()
	var j *Journal
	func() {
		defer func() {
			if r := recover(); r != nil {
				t.Fatalf("BuildJournal panicked: %v", r)
			}
		}()
		j = BuildJournal(&sliceSource{feeds}, time.Unix(0, 0), time.Unix(1<<40, 0))
	}()
	return j
}

func TestD12a_ShortTripID(t *testing.T) {
	build(t, &gtfs.Realtime{CreatedAt: time.Unix(100, 0), Trips: []gtfs.Trip{{ID: gtfs.TripID{ID: "abc"}}}})
}

func TestD12b_StopTimeUpdateWithoutStopID(t *testing.T) {
	seq := uint32(1)
	build(t, &gtfs.Realtime{CreatedAt: time.Unix(100, 0), Trips: []gtfs.Trip{{ID: gtfs.TripID{ID: "123456_A..N"},
		Vehicle: &gtfs.Vehicle{}, StopTimeUpdates: []gtfs.StopTimeUpdate{{StopSequence: &seq}}}}})
}

#!/bin/bash
# Runs the defect demonstrations against /repo's working tree without writing to it (go test -overlay).
# usage: run.sh [-run regexp]
export GOFLAGS=-mod=mod GOPROXY=off GOSUMDB=off GOTOOLCHAIN=local
here=$(cd "$(dirname "$0")" && pwd)
repo=${REPO:-/repo}
ov=$(mktemp /var/tmp/verif-ov.XXXXXX.json)
cat > "$ov" <<JSON
{"Replace": {
 "$repo/zz_findings_test.go": "$here/gtfs_findings_test.go",
 "$repo/journal/zz_findings_test.go": "$here/journal_findings_test.go",
 "$repo/extensions/nycttrips/zz_findings_test.go": "$here/nycttrips_findings_test.go"
}}
JSON
cd "$repo" && go test -overlay "$ov" -vet=off -count=1 -timeout 120s -run "${1:-TestD}" . ./journal ./extensions/nycttrips 2>&1 | grep -v "^Skipping\|^20[0-9][0-9]/"
rc=${PIPESTATUS[0]}
rm -f "$ov"
exit $rc

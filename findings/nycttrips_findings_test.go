package nycttrips

import (
	"testing"

	gtfsrt "github.com/jamespfennell/gtfs/proto"
)

func TestD14_MTrainSwapTouchesOnlyNS(t *testing.T) {
	route := "M"
	for _, c := range []struct{ in, want string }{{"M11N", "M11S"}, {"M11S", "M11N"}, {"M11X", "M11X"}, {"M111", "M111"}} {
		in := c.in
		tu := &gtfsrt.TripUpdate{Trip: &gtfsrt.TripDescriptor{RouteId: &route}, StopTimeUpdate: []*gtfsrt.TripUpdate_StopTimeUpdate{{StopId: &in}}}
		fixMTrainPlatformsInBushwick(tu)
		got := tu.StopTimeUpdate[0].GetStopId()
		if got != c.want {
			t.Errorf("%s -> %s, want %s", c.in, got, c.want)
		}
		fixMTrainPlatformsInBushwick(tu)
		if back := tu.StopTimeUpdate[0].GetStopId(); back != c.in {
			t.Errorf("swap is not its own inverse: %s -> %s -> %s", c.in, got, back)
		}
	}
}

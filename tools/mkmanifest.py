#!/usr/bin/env python3
# Regenerates /verif/MANIFEST.json from the table below. Properties not in READY go to not_applicable.
import json
READY = {}
def claim(pid, text, note, technique="contract-based deductive verification: WP/VC generation over go/ssa of the real code, contracts in tag-guarded comment files, obligations discharged by z3 5.1 / z3 4.8.12 / cvc5 1.0.3", design="DESIGN.md §4 "+"{id}"):
    READY[pid] = dict(text=text, note=note, technique=technique, design=design.format(id=pid))

COMMON_NOTE = ("Trusted base: the VC generator govc itself (unverified; mitigated by must-fail canaries on every run and the seeded-change corpus); "
  "go/ssa's lowering of the source; the assumed contracts of standard-library / protobuf functions listed per run in evidence.coverage.trusted_base; "
  "int/int64 arithmetic mathematical, floats opaque. ")

claim("C02", "Proof, per function and for all inputs, that the realtime converters transcribe wire fields as the property states: timezoneOrUTC, convertOptionalTimestamp, the stop-time-event closure (instant, zone, delay in whole seconds, absent stays absent), parseStartTime/parseStartDate (regexp-guarded, hms arithmetic, civil midnight in the configured zone), parseTripDescriptor, parseVehicleDescriptor, convertVehiclePosition, parseVehicle, parseTripUpdate (one faithful update per wire update: loop invariant), buildAlertText, the RT enum decoders. Postconditions are taken from the property text.",
      COMMON_NOTE + "proto.Unmarshal, regexp (per-pattern axioms), strconv.Atoi, time.Unix/In/Date are assumed contracts; timestamps >= 2^63 excluded by precondition; the count of Trips/Vehicles per message (entity loop of ParseRealtime) is covered under C04/C07, not here.")
claim("C12", "Proof of parseAlert against clauses transcribed from the property: every emitted entity informs something and carries a trip id only if identifiable (loop invariants); per selector (relational step obligations): an informing selector is appended exactly once with exactly its values, identifiable trips are returned for merging, explicit routes and route-only descriptors are recorded and never forgotten; per fallback route: exactly one route-level entity with the recorded direction unless the route is informed explicitly. The two predicates are proved equal to the property's definitions.",
      COMMON_NOTE + "The lift from per-iteration step obligations to the whole loop (order, completeness) is the textbook induction, written in DESIGN.md, not machine-checked. Merging of alert trips into Realtime.Trips is checked under C04/C07.")
claim("C13", "Proof that the real hasher emits exactly the token stream the specification functions describe (ghost stream, a free datatype): exact effect contracts for flush/string/stringPtr/hashNumberPtr[T]/timePtr, flush discipline at every direct write, header + per-update step + nothing-after-the-loop for hasher.trip, full stream for hasher.vehicle and Trip.Hash/Vehicle.Hash; plus machine-checked lemmas that the token encoding is injective and functional in the data fields (length prefix, presence flags, count, nil vs zero, boundary shifts). binary.Write's panic path is proved unreachable.",
      COMMON_NOTE + "binary.Write writes an injective fixed-width image of (type, value) and fails only for non-fixed-size types (assumed); the step from equal bytes to equal tokens is the unique-parse argument of DESIGN.md §4 C13 (paper proof over the machine-checked discipline).")
claim("C14", "Proof of the journal step functions as two-state contracts taken from the property: createPartition (past is a prefix ending before the first occurrence of the update's first stop, updated pairs in lock step, maximal run, new is the rest; two loop invariants), StopTime.update, StopTime.markPast (mark once), Trip.update (list ends with exactly the update's stops carrying its data and not marked; earlier entries keep their data and are marked past once; nothing before the first update stop is dropped; three loop invariants incl. in-place update and re-allocating append).",
      COMMON_NOTE + "The history statements follow from the step contract by induction over feeds (DESIGN.md §4 C14), not machine-checked.")
claim("C15", "Proof of BuildJournal and Trip bookkeeping: UID = decimal start instant + id suffix is the map key of every journal trip (invariant through all loops), ignored update (assigned trip, update without vehicle) changes nothing, otherwise identifiers/vehicle/counters/last-observed from the update; trips of the current feed are active, vanished trips are marked past once (Trip.markPast marks all stops), selection step = window and assigned, result sorted by UID (sort.Strings contract + per-id invariant). Termination under a ghost measure of the source.",
      COMMON_NOTE + "GtfsrtSource.Next is an interface contract (finite, no interference); fmt.Sprintf(\"%d%s\") concatenation and sort.Strings (sorted permutation) assumed; absence of duplicate UIDs relies on map-key distinctness (not machine-checked); history statements by induction.")

claim("C08", "Proof that the emitted collections carry the stated order regardless of input order: parseShapes (shapes ascending by ID; points of a shape follow its rows sorted by sequence, via sort.Slice comparator contracts and per-shape step obligations), parseScheduledStopTimes (postcondition: every trip's stop times ascending by stop_sequence, through a visited-set invariant over the final per-trip sort and a storage-separation invariant), parseFrequencies/parseRoutes/parseTransfers safety-level contracts.",
      COMMON_NOTE + "sort.Slice is assumed to produce a permutation sorted for the comparator (the comparator's own contract is verified against its closure body); stability of ties (equal sequence numbers keep file order) is not claimed; the ordering of Realtime.Trips is covered by the ParseRealtime contracts (C07).")
claim("C10", "Proof of the csv column layer against the property's wording: OptionalColumn.Read/ReadOr return the stated default both when the column is absent and when the cell is blank (two separate postconditions), RequiredColumn records blanks; and per-row step obligations of parseScheduledStopTimes: pickup/drop-off default to \"0\" (regular), timepoint defaults to exact, a one-sided arrival/departure time is copied to the other side; same shape for the other static parsers at safety level.",
      COMMON_NOTE + "parseGtfsTimeToDuration is an assumed function of its text (bounded stand-in, not proof); defaults of files whose parser has only a safety-level contract (routes sort order, transfers, frequencies) are not claimed here.")
claim("C16", "Proof of the NYCT trip extension: GetTrack precedence (actual over scheduled, none when neither), isStaleUnassignedTrip exactly per the property's two conditions, the M-train platform swap (N<->S exactly at the six listed stations, every other update untouched, idempotence broken only as stated) with the aliasing precondition distinctUpdates, UpdateTrip/UpdateVehicle drop decisions, and the origin-time arithmetic lemma (hundredths of a minute to H:MM:SS).",
      COMMON_NOTE + "proto extension accessors are assumed total functions of the message; the regexp for trip ids is axiomatised per pattern; float arithmetic in the origin-time conversion is treated as uninterpreted except for the integer lemma (a bounded stand-in enumerates 000000..599999).")
claim("C17", "Proof of the NYCT alerts extension: the elevator-alert rewrite (every informed entity of an elevator alert gets the station stop id; ids not owned by the alert are untouched), UpdateAlert's keep/drop decision and metadata extraction, timetabled-direction table lemma, groupsOK shape of regexp captures.",
      COMMON_NOTE + "regexp captures are axiomatised per pattern (trusted); json.Marshal assumed total.")
claim("C19", "Proof of the directory source: NewDirectoryGtfsrtSource lists exactly the regular files in sorted order or fails; Next consumes the list front to back, returns each parsed feed at most once, skips unreadable/unparsable files without stopping, and terminates (variant: files left).",
      COMMON_NOTE + "os.ReadDir / os.ReadFile / filepath.Join are assumed contracts (ghost file system: readable, fileContent); ParseRealtime is used through its own contract.")

props=[json.loads(l) for l in open('/verif/properties.jsonl')]
NA = {"C20": "rows and columns of the export live in two text/template files interpreted by a reflection-driven library; no contract on a Go function of this repository can express or decide them (DESIGN.md §5)"}
checks=[]
for p in props:
    pid=p['id']
    if pid in READY:
        r=READY[pid]
        checks.append({"property_id":pid,"quick_cmd":"./check %s quick"%pid,"thorough_cmd":"./check %s thorough"%pid,
          "evidence_file":"/verif/evidence/%s.json"%pid,"replay_cmd_template":"cat {path}","engine":"govc",
          "level_claimed":{"category":"proof","text":r['text'],"design_ref":r['design']},"level_note":r['note'],"technique":r['technique']})
na=[{"property_id":p['id'],"reason":NA.get(p['id'],"check under construction in this session (contracts not yet complete); see DESIGN.md §0")} for p in props if p['id'] not in READY]
hooks=[l.strip() for l in open('/verif/HOOK_COMMITS.txt')] if __import__('os').path.exists('/verif/HOOK_COMMITS.txt') else []
m={"version":1,
 "setup_cmd":"cd /verif/engine && GOFLAGS=-mod=vendor GOPROXY=off GOSUMDB=off GOTOOLCHAIN=local go build -o /verif/bin/govc .",
 "hooks":{"guard":"verif","enable":"govc loads /repo with go/packages BuildFlags -tags=verif; the hook files are comment-only contracts_verif.go files","baseline_off_cmd":"cd /repo && go test -vet=off -count=1 ./...","source_commits":hooks,"add_only":True},
 "engines":[{"name":"govc","path":"/verif/engine","serves_properties":sorted(READY),"kind_free_text":"VC generator over go/ssa for the real code (x/tools v0.29.0 vendored); contracts as //@ comments in tag-guarded files in /repo; obligations discharged by z3 5.1 / z3 4.8.12 / cvc5 1.0.3"}],
 "checks":checks,"not_applicable":na,
 "notes":"Genuine defects found while building the checks are repaired in /repo by 'fix:' commits and recorded in KNOWN_FINDINGS.txt; seeded property-breaking changes are under seeded/."}
json.dump(m,open('/verif/MANIFEST.json','w'),indent=1)
print(len(checks),'checks',len(na),'n/a')

#!/bin/bash
# all_seeds.sh: every seeded change against the check of its own property (and extra properties given in seeded/<id>/also.txt)
out=/var/tmp/verif-seeds.txt; : > $out
for d in /verif/seeded/*/; do
  s=$(basename $d); p=${s%-*}
  props=$p
  [ -f $d/also.txt ] && props="$props $(cat $d/also.txt)"
  MAXSHOW=2 /verif/tools/try_seed.sh $s $props 2>&1 | cut -c1-300 >> $out
done
grep "^seed=" $out

#!/usr/bin/env python3
# delta-debug helper: which quantified assumption makes an obligation slow? usage: ddquant.py file.smt2 [timeout]
import subprocess,sys
f=sys.argv[1]; t=int(sys.argv[2]) if len(sys.argv)>2 else 4
L=open(f).read().split('\n')
idx=[i for i,l in enumerate(L) if 'forall' in l and l.startswith('(assert') and not l.startswith('(assert (not')]
def run(lines):
    open('/tmp/dd.smt2','w').write('\n'.join(lines))
    r=subprocess.run(['z3-new','-T:%d'%t,'/tmp/dd.smt2'],capture_output=True,text=True).stdout
    xs=[x for x in r.split('\n') if x and 'WARNING' not in x]
    return xs[0] if xs else '?'
print('baseline', run(L))
for i in idx:
    res=run(L[:i]+L[i+1:])
    if res!='timeout':
        print(i,res,L[i][:140])

#!/bin/bash
# try_seed.sh <seed-dir-name> <prop> [<prop>...]: run checks against a seeded change in a scratch worktree at /repo HEAD.
seed=$1; shift
wt=/var/tmp/verif-try-$seed
git -C /repo worktree add -q --detach $wt HEAD || exit 1
trap 'git -C /repo worktree remove --force $wt >/dev/null 2>&1' EXIT
git -C $wt apply /verif/seeded/$seed/patch.diff || { echo "patch does not apply"; exit 1; }
mkdir -p /var/tmp/verif-try-out-$seed && cp /verif/UNCLAIMED_OBLIGATIONS.txt /verif/KNOWN_FINDINGS.txt /var/tmp/verif-try-out-$seed/ 2>/dev/null
[ -f /verif/obligations.lock ] && cp /verif/obligations.lock /var/tmp/verif-try-out-$seed/
for p in "$@"; do
  out=$(GOVC_CACHE_DIR=/verif/out/cache GOVC_NO_RETRY=1 GOVC_TIMEOUT=${SEED_TIMEOUT:-10} /verif/bin/govc check -repo $wt -prop $p -tier quick -verif /var/tmp/verif-try-out-$seed 2>&1)
  nv=$(echo "$out" | grep -c "^VIOLATION")
  echo "seed=$seed prop=$p violations=$nv $(echo "$out" | grep -c CHECK-BROKEN | sed 's/^0$//;s/^[1-9].*/BROKEN/')"
  echo "$out" | grep -A1 "^VIOLATION" | grep "^  " | head -${MAXSHOW:-4}
  sout=$(REPO=$wt STANDIN_NO_EVIDENCE=1 /verif/standins/run.sh $p quick 2>&1)
  if echo "$sout" | grep -q "^VIOLATION"; then echo "  standin: $(echo "$sout" | grep -A1 '^VIOLATION' | tail -1 | cut -c1-200)"; fi
done
rm -rf /var/tmp/verif-try-out-$seed

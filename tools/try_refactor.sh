#!/bin/bash
# tryref.sh <Rk> <n> : apply refactoring n of set Rk to a scratch worktree (with the working contract files) and verify the touched functions
R=$1; n=$2; d=/tmp/seed/$R.out/refactor$n.diff
wt=/var/tmp/verif-ref-$R-$n
git -C /repo worktree add -q --detach $wt HEAD || exit 1
trap 'git -C /repo worktree remove --force $wt >/dev/null 2>&1' EXIT
(cd /repo && for f in contracts_verif.go */contracts_verif.go extensions/*/contracts_verif.go; do cp $f $wt/$f; done)
git -C $wt apply $d || { echo "$R-$n patch does not apply"; exit 1; }
funcs=$(grep -E '^@@' $d | sed -E 's/.*@@ ?//' | grep -oE 'func (\([^)]*\) )?[A-Za-z_0-9]+' | sed -E 's/func (\([^)]*\) )?//' | sort -u | tr '\n' '|' | sed 's/|$//')
[ -z "$funcs" ] && funcs=NONE
out=$(/verif/bin/govc dev -repo $wt -func "($funcs)\$" -fail -timeout 20 2>&1)
echo "== $R-$n funcs=$funcs :: $(echo "$out" | tail -1)"
echo "$out" | grep -E "FAIL|UNSUPPORTED" | head -5 | cut -c1-200

#!/bin/bash
# try2.sh <seed> <prop>: like try_seed.sh but with the uncommitted contract files of /repo and bin/govc2
seed=$1; p=$2
wt=/var/tmp/verif-try2-$seed
git -C /repo worktree add -q --detach $wt HEAD || exit 1
trap 'git -C /repo worktree remove --force $wt >/dev/null 2>&1' EXIT
(cd /repo && for f in contracts_verif.go */contracts_verif.go extensions/*/contracts_verif.go; do cp $f $wt/$f; done)
git -C $wt apply /verif/seeded/$seed/patch.diff || { echo "patch does not apply"; exit 1; }
mkdir -p /var/tmp/verif-try2-out-$seed && cp /verif/UNCLAIMED_OBLIGATIONS.txt /verif/KNOWN_FINDINGS.txt /verif/obligations.lock /var/tmp/verif-try2-out-$seed/ 2>/dev/null
out=$(GOVC_CACHE_DIR=/verif/out/cache GOVC_NO_RETRY=1 GOVC_TIMEOUT=${SEED_TIMEOUT:-10} /verif/bin/govc check -repo $wt -prop $p -tier quick -verif /var/tmp/verif-try2-out-$seed 2>&1)
echo "seed=$seed prop=$p violations=$(echo "$out" | grep -c "^VIOLATION") $(echo "$out" | grep -c CHECK-BROKEN | sed 's/^0$//;s/^[1-9].*/BROKEN/')"
echo "$out" | grep -A1 "^VIOLATION" | grep "^  " | head -${MAXSHOW:-4}
echo "$out" | grep "^property"
rm -rf /var/tmp/verif-try2-out-$seed

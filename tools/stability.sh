#!/bin/bash
# stability.sh <run-name> <prop>... : runs the quick checks without the solver result cache, one after the other,
# and lists obligations that were slow (> 6 s solver time) or not discharged.
name=$1; shift
out=/var/tmp/verif-stab-$name; mkdir -p $out
for p in "$@"; do
  /usr/bin/time -f "%e s wall" env GOVC_NOCACHE=1 /verif/check $p quick > $out/$p.txt 2>&1
  tail -2 $out/$p.txt | grep "^property" | cut -c1-200
  grep -c "^VIOLATION\|^CHECK-BROKEN" $out/$p.txt | sed 's/^/  alarms: /'
  cp /verif/evidence/$p.json $out/$p.json
  jq -r '.coverage.per_obligation[] | select(.time_s > 6 or (.status != "unsat" and .kind != "canary" and .kind != "cover")) | "  slow/undischarged: \(.func)::\(.name) \(.status) \(.solver) \(.time_s)"' $out/$p.json | head -40
done

#!/bin/bash
# mklock.sh: writes obligations.lock from the evidence files of clean quick runs on the reference tree: the names of
# the function-level postconditions and lemmas of each property (stable names: they come from contract labels, not
# from the shape of the code). A later run reports a locked obligation that is no longer generated.
out=/verif/obligations.lock; : > $out
for f in /verif/evidence/C*.json; do
  p=$(jq -r .property_id $f)
  [ "$(jq -r .violations $f)" = "0" ] || { echo "skip $p (violations)"; continue; }
  jq -r --arg p "$p" '.coverage.per_obligation[] | select((.kind=="post" or .kind=="lemma") and .status=="unsat") | "\($p) \(.name)"' $f >> $out
done
sort -u -o $out $out; wc -l $out

#!/bin/bash
# ingest_seed.sh <Cxx> <n>: confirm a sub-agent's change in a scratch worktree and store it under /verif/seeded/<Cxx>-<n>/
# Confirms: (1) builds, (2) full suite passes with the change, (3) demo fails with the change, (4) demo passes without it.
set -u
export GOFLAGS=-mod=mod GOPROXY=off GOSUMDB=off GOTOOLCHAIN=local
id=$1; n=$2
src=/tmp/seed/$id.out
wt=/var/tmp/verif-seedcheck-$id-$n
dst=/verif/seeded/$id-$n
[ -f $src/change$n.diff ] || { echo "$id-$n: no diff"; exit 1; }
git -C /repo worktree add -q --detach $wt HEAD || exit 1
trap 'git -C /repo worktree remove --force $wt >/dev/null 2>&1' EXIT
cd $wt
demo=$src/demo${n}_test.go
dir=$(head -3 $demo | grep -oE '(extensions/[a-z]+|journal|csv|warnings|repo(sitory)? root|root)' | head -1)
case "$dir" in extensions/*|journal|csv|warnings) ;; *) dir=. ;; esac
pkgline=$(grep -m1 '^package ' $demo)
cp $demo $dir/zz_seed_demo_test.go
base=$(go test -vet=off -count=1 -run 'Demo|Seed|Test' ./$dir 2>&1 | tail -3)
go test -vet=off -count=1 ./$dir > /tmp/seed_base_$id$n.log 2>&1; rc_base=$?
git apply $src/change$n.diff || { echo "$id-$n: patch does not apply"; exit 1; }
go build ./... || { echo "$id-$n: does not build"; exit 1; }
go test -vet=off -count=1 ./$dir > /tmp/seed_mut_$id$n.log 2>&1; rc_mut=$?
rm $dir/zz_seed_demo_test.go
go test -vet=off -count=1 ./... > /tmp/seed_suite_$id$n.log 2>&1; rc_suite=$?
echo "$id-$n dir=$dir demo_on_clean=$rc_base demo_on_mutant=$rc_mut suite_on_mutant=$rc_suite"
if [ $rc_base -eq 0 ] && [ $rc_mut -ne 0 ] && [ $rc_suite -eq 0 ]; then
  mkdir -p $dst
  cp $src/change$n.diff $dst/patch.diff
  cp $demo $dst/demo_test.go
  python3 - "$id" "$n" "$dir" "$src" "$dst" <<'PY'
import json,sys,re
id,n,d,src,dst=sys.argv[1:]
notes=open(src+'/NOTES.md').read()
json.dump({"property":id,"change":int(n),"demo_dir":d,
 "needs_to_manifest":"see notes (sub-agent's description below)",
 "confirmed":{"demo passes on unchanged HEAD":True,"demo fails with patch":True,"full suite passes with patch":True,
              "how":"tools/ingest_seed.sh in a scratch worktree of /repo HEAD (go test -vet=off -count=1)"},
 "notes":notes},open(dst+'/meta.json','w'),indent=1)
PY
  echo "  kept -> $dst"
else
  echo "  REJECTED"; tail -5 /tmp/seed_base_$id$n.log /tmp/seed_mut_$id$n.log /tmp/seed_suite_$id$n.log
fi

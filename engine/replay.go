package main

// Replay of solver counterexamples against the compiled code, for the class of obligations where the symbolic inputs
// are plain values: lemmas whose quantified variables are scalars or structs of scalars (the TripID order lemmas,
// arithmetic lemmas). The lemma is re-rendered with its variables as free constants, the solver's model of those
// constants is turned into Go literals, the lemma body is translated to Go (method calls run the real methods) and the
// resulting in-package test is run with `go test -overlay` (nothing is written to the repository).

import (
	"context"
	"fmt"
	"go/types"
	"os"
	"os/exec"
	"path/filepath"
	"regexp"
	"sort"
	"strconv"
	"strings"
	"time"

	"golang.org/x/tools/go/ssa"
)

type ReplayReport struct {
	Attempted bool              `json:"attempted"`
	Confirmed bool              `json:"confirmed_on_real_code"`
	Note      string            `json:"note"`
	Inputs    map[string]string `json:"inputs,omitempty"`
	TestFile  string            `json:"test_file,omitempty"`
	Command   string            `json:"command,omitempty"`
	Output    string            `json:"output,omitempty"`
}

func (eng *Engine) lemmaByName(name string) *Lemma {
	for _, l := range eng.contracts.Lemmas {
		if l.Name == name {
			return l
		}
	}
	return nil
}

func (eng *Engine) replayLemma(l *Lemma, outDir string) (rep ReplayReport) {
	defer func() {
		if r := recover(); r != nil {
			rep.Note = fmt.Sprintf("replay not possible: %v", r)
		}
	}()
	q, ok := l.E.(*EQuant)
	if !ok || !q.Forall {
		rep.Note = "replay not possible: the lemma is not a universally quantified formula"
		return
	}
	fx := eng.newFnCtx(nil, nil)
	fx.pkg = eng.pkgByPath[l.Pkg]
	s := fx.s
	st := &State{guard: "true", heaps: map[string]Term{}, base: "0", ghost: map[string]Term{}}
	st.alloc = s.declare("alloc0", "Int")
	s.assume("true", "(>= alloc0 1000)")
	initGhostState(fx, st)
	fx.entry = st.clone()
	fx.allocEntry = st.alloc
	ev := &Evaluator{fx: fx, env: map[string]SVal{}, st: st, old: st, pkg: fx.pkg, bound: map[string]SVal{}}
	type rv struct {
		name string
		typ  types.Type
		c    string
	}
	var vars []rv
	for _, v := range q.Vars {
		t, _ := ev.resolveType(v.Type)
		if t == nil {
			rep.Note = "replay not possible: variable " + v.Name + " has a specification-only sort (" + v.Type + ")"
			return
		}
		if !replayableType(t, 0) {
			rep.Note = "replay not possible: variable " + v.Name + " of type " + v.Type + " is not a plain value"
			return
		}
		c := s.declare("rv_"+v.Name, fx.tm.sortOf(t))
		for _, w := range fx.wfFacts(st, t, c, 0) {
			s.assume("true", w)
		}
		ev.bound[v.Name] = SVal{v: Val{t: c}, typ: t}
		vars = append(vars, rv{v.Name, t, c})
	}
	body := ev.eval(q.Body).v.t
	smt := s.render(s.mark(), "true", body, "replay of lemma "+l.Name, true) + "(get-model)\n"
	os.MkdirAll(outDir, 0o755)
	mp := filepath.Join(outDir, "replay_"+sanitize(l.Name)+".smt2")
	if err := os.WriteFile(mp, []byte(smt), 0o644); err != nil {
		rep.Note = "replay not possible: " + err.Error()
		return
	}
	ctx, cancel := context.WithTimeout(context.Background(), 25*time.Second)
	out, _ := exec.CommandContext(ctx, "z3-new", "-T:20", mp).CombinedOutput()
	cancel()
	txt := string(out)
	if !strings.HasPrefix(strings.TrimSpace(txt), "sat") {
		rep.Note = "no model: the solver answered " + strings.SplitN(strings.TrimSpace(txt), "\n", 2)[0] + " on the skolemised lemma"
		return
	}
	rep.Attempted = true
	rep.Inputs = map[string]string{}
	tr := &goTranslator{eng: eng, pkg: fx.pkg.Pkg, used: map[string]bool{}, imports: map[string]string{}}
	var decls []string
	for _, v := range vars {
		val, ok := modelValue(txt, v.c)
		if !ok {
			rep.Note = "model has no value for " + v.name
			rep.Attempted = false
			return
		}
		lit, ok := tr.goLiteral(v.typ, val)
		if !ok {
			rep.Note = "model value of " + v.name + " cannot be written as a Go literal: " + val
			rep.Attempted = false
			return
		}
		rep.Inputs[v.name] = lit
		decls = append(decls, fmt.Sprintf("\t%s := %s\n\t_ = %s", v.name, lit, v.name))
	}
	bodyGo, ok := tr.expr(q.Body)
	if !ok {
		rep.Note = "the lemma body uses a construct that has no Go counterpart: " + tr.err
		rep.Attempted = false
		return
	}
	var helpers []string
	for len(tr.pending) > 0 {
		name := tr.pending[0]
		tr.pending = tr.pending[1:]
		sf := eng.contracts.SpecFuncs[name]
		var ps []string
		for _, p := range sf.Params {
			if p.Type == "?" {
				rep.Note = "specification function " + name + " is polymorphic"
				rep.Attempted = false
				return
			}
			ps = append(ps, p.Name+" "+p.Type)
		}
		b, ok := tr.expr(sf.Body)
		if !ok || sf.Body == nil {
			rep.Note = "specification function " + name + " has no Go counterpart: " + tr.err
			rep.Attempted = false
			return
		}
		helpers = append(helpers, fmt.Sprintf("func rp_%s(%s) %s { return %s }", name, strings.Join(ps, ", "), sf.Ret, b))
	}
	var imps []string
	for path, alias := range tr.imports {
		imps = append(imps, fmt.Sprintf("\t%s %q", alias, path))
	}
	sort.Strings(imps)
	src := fmt.Sprintf(`// Generated by govc: replay of the solver's counterexample to lemma %s on the compiled code.
// %s
package %s

import (
	"testing"
%s
)

%s

func TestGovcReplay(t *testing.T) {
%s
	holds := %s
	if !holds {
		t.Fatalf("REPLAY-CONFIRMED: lemma %s does not hold on the real code for these values")
	}
	t.Logf("REPLAY-NOT-CONFIRMED: the real code satisfies the lemma for the solver's values")
}
`, l.Name, l.Text, fx.pkg.Pkg.Name(), strings.Join(imps, "\n"), strings.Join(helpers, "\n"), strings.Join(decls, "\n"), bodyGo, l.Name)
	tf := filepath.Join(outDir, "replay_"+sanitize(l.Name)+"_test.go")
	if err := os.WriteFile(tf, []byte(src), 0o644); err != nil {
		rep.Note = err.Error()
		return
	}
	pkgDir := filepath.Dir(l.File)
	ov := filepath.Join(outDir, "replay_"+sanitize(l.Name)+"_overlay.json")
	os.WriteFile(ov, []byte(fmt.Sprintf("{\"Replace\": {%q: %q}}\n", filepath.Join(pkgDir, "zz_govc_replay_test.go"), tf)), 0o644)
	rep.TestFile = tf
	rep.Command = fmt.Sprintf("cd %s && go test -overlay %s -vet=off -count=1 -timeout 60s -run '^TestGovcReplay$' .", pkgDir, ov)
	ctx2, cancel2 := context.WithTimeout(context.Background(), 120*time.Second)
	cmd := exec.CommandContext(ctx2, "go", "test", "-overlay", ov, "-vet=off", "-count=1", "-timeout", "60s", "-run", "^TestGovcReplay$", ".")
	cmd.Dir = pkgDir
	cmd.Env = append(os.Environ(), "GOFLAGS=-mod=mod", "GOPROXY=off", "GOSUMDB=off", "GOTOOLCHAIN=local")
	o, _ := cmd.CombinedOutput()
	cancel2()
	rep.Output = string(o)
	if len(rep.Output) > 4000 {
		rep.Output = rep.Output[:4000]
	}
	switch {
	case strings.Contains(rep.Output, "REPLAY-CONFIRMED"):
		rep.Confirmed = true
		rep.Note = "the solver's counterexample makes the lemma fail on the compiled code"
	case strings.Contains(rep.Output, "REPLAY-NOT-CONFIRMED") || strings.Contains(rep.Output, "\nok"):
		rep.Note = "the real code satisfies the lemma for the solver's values (the counterexample lives in the model of the code, e.g. in an assumed library contract)"
	default:
		rep.Note = "the replay test did not build or run"
	}
	return
}

func replayableType(t types.Type, depth int) bool {
	if depth > 3 {
		return false
	}
	if isTimeTime(t) {
		return true
	}
	switch u := types.Unalias(t).Underlying().(type) {
	case *types.Basic:
		return u.Info()&(types.IsInteger|types.IsString|types.IsBoolean) != 0
	case *types.Struct:
		for i := 0; i < u.NumFields(); i++ {
			if !replayableType(u.Field(i).Type(), depth+1) {
				return false
			}
		}
		return true
	}
	return false
}

// modelValue finds (define-fun name () Sort VALUE) in a z3 model
func modelValue(model, name string) (string, bool) {
	i := strings.Index(model, "(define-fun "+name+" ()")
	if i < 0 {
		return "", false
	}
	// the whole s-expression
	depth, inStr, start := 0, false, i
	for k := i; k < len(model); k++ {
		c := model[k]
		if inStr {
			if c == '"' {
				inStr = false
			}
			continue
		}
		switch c {
		case '"':
			inStr = true
		case '(':
			depth++
		case ')':
			depth--
			if depth == 0 {
				parts := splitSexp(model[start+1 : k])
				if len(parts) < 5 {
					return "", false
				}
				return parts[len(parts)-1], true
			}
		}
	}
	return "", false
}

type goTranslator struct {
	resultN int
	eng     *Engine
	pkg     *types.Package
	used    map[string]bool
	pending []string
	imports map[string]string
	err     string
}

var smtUnicode = regexp.MustCompile(`\\u\{([0-9a-fA-F]+)\}`)

func (tr *goTranslator) typeName(t types.Type) string {
	return types.TypeString(t, func(p *types.Package) string {
		if p == tr.pkg {
			return ""
		}
		alias := p.Name()
		if p.Path() == "github.com/jamespfennell/gtfs/proto" {
			alias = "gtfsrt"
		}
		tr.imports[p.Path()] = alias
		return alias
	})
}

func smtInt(v string) (string, bool) {
	v = strings.TrimSpace(v)
	if strings.HasPrefix(v, "(- ") && strings.HasSuffix(v, ")") {
		n := strings.TrimSpace(v[3 : len(v)-1])
		if _, err := strconv.ParseInt(n, 10, 64); err == nil {
			return "-" + n, true
		}
		return "", false
	}
	if _, err := strconv.ParseInt(v, 10, 64); err == nil {
		return v, true
	}
	return "", false
}

func (tr *goTranslator) goLiteral(t types.Type, v string) (string, bool) {
	v = strings.TrimSpace(v)
	if isTimeTime(t) {
		parts := splitSexp(strings.TrimSuffix(strings.TrimPrefix(v, "("), ")"))
		if len(parts) == 3 && parts[0] == "mktime" {
			if n, ok := smtInt(parts[1]); ok {
				tr.imports["time"] = "time"
				return fmt.Sprintf("time.Unix(0, %s).UTC()", n), true
			}
		}
		return "", false
	}
	switch u := types.Unalias(t).Underlying().(type) {
	case *types.Basic:
		var lit string
		switch {
		case u.Info()&types.IsString != 0:
			if len(v) < 2 || v[0] != '"' {
				return "", false
			}
			raw := strings.ReplaceAll(v[1:len(v)-1], `""`, `"`)
			raw = smtUnicode.ReplaceAllStringFunc(raw, func(m string) string {
				n, _ := strconv.ParseInt(smtUnicode.FindStringSubmatch(m)[1], 16, 32)
				return string(rune(n))
			})
			lit = strconv.Quote(raw)
		case u.Info()&types.IsBoolean != 0:
			if v != "true" && v != "false" {
				return "", false
			}
			lit = v
		case u.Info()&types.IsInteger != 0:
			n, ok := smtInt(v)
			if !ok {
				return "", false
			}
			lit = n
		default:
			return "", false
		}
		if _, named := types.Unalias(t).(*types.Named); named {
			return tr.typeName(t) + "(" + lit + ")", true
		}
		return lit, true
	case *types.Struct:
		parts := splitSexp(strings.TrimSuffix(strings.TrimPrefix(v, "("), ")"))
		if len(parts) != u.NumFields()+1 {
			return "", false
		}
		var fs []string
		for i := 0; i < u.NumFields(); i++ {
			fl, ok := tr.goLiteral(u.Field(i).Type(), parts[i+1])
			if !ok {
				return "", false
			}
			fs = append(fs, u.Field(i).Name()+": "+fl)
		}
		return tr.typeName(t) + "{" + strings.Join(fs, ", ") + "}", true
	}
	return "", false
}

func (tr *goTranslator) fail(msg string) (string, bool) {
	if tr.err == "" {
		tr.err = msg
	}
	return "", false
}

func (tr *goTranslator) expr(e Expr) (string, bool) {
	switch x := e.(type) {
	case *EIdent:
		if (x.Name == "result" || x.Name == "ret") && tr.resultN > 0 {
			return "r0", true
		}
		return x.Name, true
	case *EOld:
		return tr.expr(x.X)
	case *EInt:
		return x.V, true
	case *EStr:
		return strconv.Quote(x.V), true
	case *EBool:
		return fmt.Sprint(x.V), true
	case *ENil:
		return "nil", true
	case *EUnary:
		a, ok := tr.expr(x.X)
		if !ok {
			return "", false
		}
		return "(" + x.Op + a + ")", true
	case *EBinary:
		a, ok1 := tr.expr(x.X)
		b, ok2 := tr.expr(x.Y)
		if !ok1 || !ok2 {
			return "", false
		}
		switch x.Op {
		case "==>":
			return "(!(" + a + ") || (" + b + "))", true
		case "<==>":
			return "((" + a + ") == (" + b + "))", true
		}
		return "(" + a + " " + x.Op + " " + b + ")", true
	case *ESel:
		if id, isID := x.X.(*EIdent); isID && (id.Name == "result" || id.Name == "ret") && tr.resultN > 1 {
			if n, err := strconv.Atoi(x.Name); err == nil && n < tr.resultN {
				return fmt.Sprintf("r%d", n), true
			}
		}
		a, ok := tr.expr(x.X)
		if !ok {
			return "", false
		}
		return a + "." + x.Name, true
	case *EIndex:
		a, ok1 := tr.expr(x.X)
		i, ok2 := tr.expr(x.I)
		if !ok1 || !ok2 {
			return "", false
		}
		return a + "[" + i + "]", true
	case *ESlice:
		a, ok := tr.expr(x.X)
		if !ok {
			return "", false
		}
		lo, hi := "", ""
		if x.Lo != nil {
			if lo, ok = tr.expr(x.Lo); !ok {
				return "", false
			}
		}
		if x.Hi != nil {
			if hi, ok = tr.expr(x.Hi); !ok {
				return "", false
			}
		}
		return a + "[" + lo + ":" + hi + "]", true
	case *ECond:
		return tr.fail("conditional expression")
	case *ECall:
		var args []string
		for _, a := range x.Args {
			s, ok := tr.expr(a)
			if !ok {
				return "", false
			}
			args = append(args, s)
		}
		if x.Recv != nil {
			r, ok := tr.expr(x.Recv)
			if !ok {
				return "", false
			}
			return r + "." + x.Fun + "(" + strings.Join(args, ", ") + ")", true
		}
		switch x.Fun {
		case "len":
			return "len(" + strings.Join(args, ", ") + ")", true
		case "ns":
			return args[0] + ".UnixNano()", true
		}
		if sf, ok := tr.eng.contracts.SpecFuncs[x.Fun]; ok && sf.Body != nil {
			if !tr.used[x.Fun] {
				tr.used[x.Fun] = true
				tr.pending = append(tr.pending, x.Fun)
			}
			return "rp_" + x.Fun + "(" + strings.Join(args, ", ") + ")", true
		}
		// a Go function of the package: call it
		if tr.pkg.Scope().Lookup(x.Fun) != nil {
			return x.Fun + "(" + strings.Join(args, ", ") + ")", true
		}
		return tr.fail("call of " + x.Fun)
	}
	return tr.fail(fmt.Sprintf("%T", e))
}

// replayPost: a refuted postcondition of a function whose parameters (and receiver) are plain values: the model's
// arguments are passed to the real function and the ensures clause is evaluated on what it returns.
func (eng *Engine) replayPost(fn *ssa.Function, c *Clause, smtPath, outDir, tag string) (rep ReplayReport) {
	defer func() {
		if r := recover(); r != nil {
			rep.Note = fmt.Sprintf("replay not possible: %v", r)
		}
	}()
	if fn == nil || c == nil || fn.Parent() != nil {
		rep.Note = "replay not possible: not a top-level function"
		return
	}
	for _, p := range fn.Params {
		if !replayableType(p.Type(), 0) {
			rep.Note = "replay not possible: parameter " + p.Name() + " is not a plain value (its meaning depends on the heap)"
			return
		}
	}
	src, err := os.ReadFile(smtPath)
	if err != nil {
		rep.Note = err.Error()
		return
	}
	os.MkdirAll(outDir, 0o755)
	mp := filepath.Join(outDir, "replay_"+tag+".smt2")
	os.WriteFile(mp, append(src, []byte("(get-model)\n")...), 0o644)
	ctx, cancel := context.WithTimeout(context.Background(), 25*time.Second)
	out, _ := exec.CommandContext(ctx, "z3-new", "-T:20", mp).CombinedOutput()
	cancel()
	txt := string(out)
	if !strings.HasPrefix(strings.TrimSpace(txt), "sat") {
		rep.Note = "no model"
		return
	}
	pkg := eng.pkgByPath[eng.pkgPathOf(fn)]
	tr := &goTranslator{eng: eng, pkg: pkg.Pkg, used: map[string]bool{}, imports: map[string]string{}, resultN: fn.Signature.Results().Len()}
	rep.Attempted = true
	rep.Inputs = map[string]string{}
	var decls, args []string
	recv := ""
	for i, p := range fn.Params {
		re := regexp.MustCompile(`\(define-fun (p_` + regexp.QuoteMeta(p.Name()) + `![0-9]+) \(\)`)
		lit := ""
		if m := re.FindStringSubmatch(txt); m != nil {
			if val, ok := modelValue(txt, m[1]); ok {
				lit, _ = tr.goLiteral(p.Type(), val)
			}
		}
		if lit == "" {
			lit = "*new(" + tr.typeName(p.Type()) + ")" // unconstrained in the model: any value will do
		}
		rep.Inputs[p.Name()] = lit
		decls = append(decls, fmt.Sprintf("\t%s := %s\n\t_ = %s", p.Name(), lit, p.Name()))
		if i == 0 && fn.Signature.Recv() != nil {
			recv = p.Name()
		} else {
			args = append(args, p.Name())
		}
	}
	call := fn.Name() + "(" + strings.Join(args, ", ") + ")"
	if recv != "" {
		call = recv + "." + call
	}
	var rs []string
	for i := 0; i < tr.resultN; i++ {
		rs = append(rs, fmt.Sprintf("r%d", i))
	}
	callStmt := "\t" + call
	if len(rs) > 0 {
		callStmt = "\t" + strings.Join(rs, ", ") + " := " + call + "\n\t_, _, _ = " + strings.Join(append(rs, "0", "0", "0")[:3], ", ")
	}
	bodyGo, ok := tr.expr(c.E)
	if !ok {
		rep.Attempted = false
		rep.Note = "the clause uses a construct that has no Go counterpart: " + tr.err
		return
	}
	var helpers []string
	for len(tr.pending) > 0 {
		name := tr.pending[0]
		tr.pending = tr.pending[1:]
		sf := eng.contracts.SpecFuncs[name]
		var ps []string
		for _, p := range sf.Params {
			if p.Type == "?" {
				rep.Attempted = false
				rep.Note = "specification function " + name + " is polymorphic"
				return
			}
			ps = append(ps, p.Name+" "+p.Type)
		}
		b, ok := tr.expr(sf.Body)
		if !ok || sf.Body == nil {
			rep.Attempted = false
			rep.Note = "specification function " + name + " has no Go counterpart: " + tr.err
			return
		}
		helpers = append(helpers, fmt.Sprintf("func rp_%s(%s) %s { return %s }", name, strings.Join(ps, ", "), sf.Ret, b))
	}
	var imps []string
	for path, alias := range tr.imports {
		imps = append(imps, fmt.Sprintf("\t%s %q", alias, path))
	}
	sort.Strings(imps)
	gosrc := fmt.Sprintf(`// Generated by govc: replay of the solver's counterexample to a postcondition of %s on the compiled code.
// %s
package %s

import (
	"testing"
%s
)

%s

func TestGovcReplay(t *testing.T) {
%s
%s
	holds := %s
	if !holds {
		t.Fatalf("REPLAY-CONFIRMED: the postcondition does not hold on the real code for these arguments")
	}
	t.Logf("REPLAY-NOT-CONFIRMED: the real code satisfies the postcondition for the solver's arguments")
}
`, fn.Name(), c.Text, pkg.Pkg.Name(), strings.Join(imps, "\n"), strings.Join(helpers, "\n"), strings.Join(decls, "\n"), callStmt, bodyGo)
	tf := filepath.Join(outDir, "replay_"+tag+"_test.go")
	os.WriteFile(tf, []byte(gosrc), 0o644)
	pkgDir := filepath.Dir(eng.prog.Fset.Position(fn.Pos()).Filename)
	ov := filepath.Join(outDir, "replay_"+tag+"_overlay.json")
	os.WriteFile(ov, []byte(fmt.Sprintf("{\"Replace\": {%q: %q}}\n", filepath.Join(pkgDir, "zz_govc_replay_test.go"), tf)), 0o644)
	rep.TestFile = tf
	rep.Command = fmt.Sprintf("cd %s && go test -overlay %s -vet=off -count=1 -timeout 60s -run '^TestGovcReplay$' .", pkgDir, ov)
	ctx2, cancel2 := context.WithTimeout(context.Background(), 120*time.Second)
	cmd := exec.CommandContext(ctx2, "go", "test", "-overlay", ov, "-vet=off", "-count=1", "-timeout", "60s", "-run", "^TestGovcReplay$", ".")
	cmd.Dir = pkgDir
	cmd.Env = append(os.Environ(), "GOFLAGS=-mod=mod", "GOPROXY=off", "GOSUMDB=off", "GOTOOLCHAIN=local")
	o, _ := cmd.CombinedOutput()
	cancel2()
	rep.Output = string(o)
	if len(rep.Output) > 4000 {
		rep.Output = rep.Output[:4000]
	}
	switch {
	case strings.Contains(rep.Output, "REPLAY-CONFIRMED") || strings.Contains(rep.Output, "panic:"):
		rep.Confirmed = true
		rep.Note = "the solver's arguments make the postcondition fail on the compiled code"
	case strings.Contains(rep.Output, "REPLAY-NOT-CONFIRMED") || strings.Contains(rep.Output, "\nok"):
		rep.Note = "the real code satisfies the clause for the solver's arguments (the counterexample lives in the model of the code)"
	default:
		rep.Note = "the replay test did not build or run"
	}
	return
}

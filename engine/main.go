package main

import (
	"flag"
	"fmt"
	"os"
	"path/filepath"
	"regexp"
	"sort"
	"strings"
	"time"
)

func main() {
	if len(os.Args) < 2 {
		fmt.Fprintln(os.Stderr, "usage: govc dev|check ...")
		os.Exit(2)
	}
	switch os.Args[1] {
	case "dev":
		devMain(os.Args[2:])
	case "check":
		checkMain(os.Args[2:])
	case "deps":
		depsMain(os.Args[2:])
	default:
		fmt.Fprintln(os.Stderr, "unknown command", os.Args[1])
		os.Exit(2)
	}
}

func obFile(dir, name string) string {
	n := sanitize(name)
	if len(n) > 150 {
		n = n[:150]
	}
	return filepath.Join(dir, n+".smt2")
}

// dev: verify functions matching a pattern and print every obligation with its status
func devMain(args []string) {
	fs := flag.NewFlagSet("dev", flag.ExitOnError)
	repo := fs.String("repo", "/repo", "repository")
	pat := fs.String("func", ".", "regexp on qualified function names")
	out := fs.String("out", "/verif/out/dev", "output directory")
	timeout := fs.Int("timeout", 10, "per obligation timeout (s)")
	kinds := fs.String("kinds", "", "only obligations whose kind matches this regexp")
	obPat := fs.String("ob", "", "only obligations whose name matches this regexp")
	failOnly := fs.Bool("fail", false, "print only non-discharged obligations")
	lemmas := fs.Bool("lemmas", true, "also check lemmas matching the pattern")
	fs.Parse(args)
	t0 := time.Now()
	eng, err := loadEngine(*repo)
	if err != nil {
		fmt.Fprintln(os.Stderr, "load:", err)
		os.Exit(2)
	}
	fmt.Printf("loaded in %.1fs\n", time.Since(t0).Seconds())
	re := regexp.MustCompile(*pat)
	var kre *regexp.Regexp
	if *kinds != "" {
		kre = regexp.MustCompile(*kinds)
	}
	os.MkdirAll(*out, 0o755)
	var results []*FnResult
	for _, fn := range eng.targets() {
		if !re.MatchString(eng.relNameQ(fn)) {
			continue
		}
		results = append(results, eng.verifyFunc(fn))
	}
	if *lemmas {
		for _, l := range eng.contracts.Lemmas {
			if re.MatchString("lemma:" + l.Name) {
				results = append(results, eng.verifyLemma(l))
			}
		}
	}
	var obre *regexp.Regexp
	if *obPat != "" {
		obre = regexp.MustCompile(*obPat)
	}
	var jobs []*job
	for _, r := range results {
		for _, ob := range r.Obs {
			if kre != nil && !kre.MatchString(ob.Kind) {
				continue
			}
			if obre != nil && !obre.MatchString(ob.Name) {
				continue
			}
			jobs = append(jobs, &job{ob: ob, path: obFile(*out, r.Name+"__"+ob.Name)})
		}
	}
	fmt.Printf("vcgen done at %.1fs (%d obligations)\n", time.Since(t0).Seconds(), len(jobs))
	cacheDir = "/verif/out/cache"
	if os.Getenv("GOVC_NOCACHE") != "" {
		cacheDir = ""
	}
	solveAll(jobs, *timeout, false, 16)
	fmt.Printf("solving done at %.1fs\n", time.Since(t0).Seconds())
	byOb := map[*Obligation]*job{}
	for _, j := range jobs {
		byOb[j.ob] = j
	}
	nOK, nBad, nUns := 0, 0, 0
	for _, r := range results {
		hdr := false
		ph := func() {
			if !hdr {
				fmt.Printf("== %s  (contract=%v props=%v)\n", r.Name, r.HasContract, r.Props)
				hdr = true
			}
		}
		if r.Unsupported != "" {
			ph()
			fmt.Printf("   UNSUPPORTED: %s\n", r.Unsupported)
			nUns++
		}
		for _, ob := range r.Obs {
			j := byOb[ob]
			if j == nil {
				continue
			}
			ok := (j.res.Status == "unsat" && !ob.MustSat) || (j.res.Status != "unsat" && ob.MustSat)
			if ok {
				nOK++
			} else {
				nBad++
			}
			if *failOnly && ok {
				continue
			}
			ph()
			mark := "ok  "
			if !ok {
				mark = "FAIL"
			}
			fmt.Printf("   %s %-8s %-7s %5.2fs %s\n", mark, j.res.Status, j.res.Solver, j.res.TimeS, ob.Name)
			if !ok && j.res.Status == "error" {
				fmt.Printf("        %s\n", strings.ReplaceAll(strings.TrimSpace(j.res.Output), "\n", "\n        "))
			}
		}
		if len(r.Uncontr) > 0 && !*failOnly {
			ph()
			fmt.Printf("   uncontracted callees: %v\n", r.Uncontr)
		}
	}
	fmt.Printf("functions=%d obligations ok=%d failed=%d unsupported-functions=%d wall=%.1fs\n", len(results), nOK, nBad, nUns, time.Since(t0).Seconds())
}

func sortedSet(m map[string]bool) []string {
	var out []string
	for k := range m {
		out = append(out, k)
	}
	sort.Strings(out)
	return out
}

// deps: for every function under contract, the callees whose contracts its proof relies on (modular calls) that are not
// tagged with one of the function's own properties: candidates for an [label also Cxx] tag on the postcondition used.
func depsMain(args []string) {
	repo := "/repo"
	if len(args) > 0 {
		repo = args[0]
	}
	eng, err := loadEngine(repo)
	if err != nil {
		fmt.Fprintln(os.Stderr, "load:", err)
		os.Exit(2)
	}
	by := map[string]*FnResult{}
	var rs []*FnResult
	for _, fn := range eng.targets() {
		r := eng.verifyFunc(fn)
		by[r.Name] = r
		rs = append(rs, r)
	}
	for _, r := range rs {
		for _, c := range r.UsedCallees {
			cr := by[c]
			if cr == nil {
				continue
			}
			var missing []string
			for _, p := range r.Props {
				if !hasProp(cr.Props, p) && !hasProp(cr.AlsoProps, p) {
					missing = append(missing, p)
				}
			}
			if len(missing) > 0 {
				fmt.Printf("%s %v -> %s %v also=%v : missing %v\n", r.Name, r.Props, c, cr.Props, cr.AlsoProps, missing)
			}
		}
	}
}

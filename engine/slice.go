package main

// Relevance slicing of an obligation script: keep only the assumptions connected (through shared heap / value
// symbols) to the goal. Dropping assumptions can only make an obligation harder to discharge, never easier, so a
// sliced script that is unsat proves the obligation; anything else is inconclusive and the full script is tried.

import (
	"regexp"
	"strings"
)

var symRe = regexp.MustCompile(`\|[^|]*\||[A-Za-z_][A-Za-z0-9_.!$@/*\[\]-]*`)

var smtKeywords = map[string]bool{"assert": true, "forall": true, "exists": true, "and": true, "or": true, "not": true, "ite": true, "let": true,
	"select": true, "store": true, "true": true, "false": true, "Int": true, "Bool": true, "String": true, "Array": true, "as": true, "const": true,
	"declare-fun": true, "define-fun": true, "div": true, "mod": true, "pattern": true, "Ref": true, "Slice": true, "Iface": true, "Time": true,
	"mkref": true, "obj": true, "idx": true, "mkslice": true, "sobj": true, "soff": true, "slen": true, "scap": true, "mkiface": true, "itag": true,
	"ival": true, "mktime": true, "t_ns": true, "t_loc": true, "nilref": true, "nilslice": true, "niliface": true, "elemref": true, "r": true, "k": true,
	"j": true, "i": true, "x": true, "s": true, "str.len": true, "str.at": true, "str.substr": true, "str.to_int": true, "str.from_int": true,
	"str.prefixof": true, "str.contains": true, "str.to_code": true, "str.from_code": true, "str.in_re": true, "str.": true}

func ubiquitous(s string) bool {
	return strings.HasPrefix(s, "alloc") || strings.HasPrefix(s, "g!") || strings.HasPrefix(s, "eg!") || strings.HasPrefix(s, "trg!")
}

func lineSyms(l string) []string {
	var out []string
	seen := map[string]bool{}
	for _, m := range symRe.FindAllString(l, -1) {
		if smtKeywords[m] || strings.HasSuffix(m, "?|") || seen[m] {
			continue
		}
		seen[m] = true
		out = append(out, m)
	}
	return out
}

func sliceSMT(smt string) (string, bool) {
	lines := strings.Split(smt, "\n")
	// locate the tail: (assert guard) (assert (not goal)) (check-sat)
	end := -1
	for i := len(lines) - 1; i >= 0; i-- {
		if strings.HasPrefix(lines[i], "(check-sat)") {
			end = i
			break
		}
	}
	if end < 2 {
		return "", false
	}
	type ln struct {
		text   string
		kind   int // 0 other(always keep), 1 declare, 2 define, 3 assert
		name   string
		syms   []string
		keep   bool
		global bool
	}
	ls := make([]*ln, len(lines))
	defOf := map[string]*ln{}
	for i, t := range lines {
		l := &ln{text: t}
		ls[i] = l
		switch {
		case strings.HasPrefix(t, "(declare-fun "):
			l.kind = 1
			f := strings.Fields(t[len("(declare-fun "):])
			if len(f) > 0 {
				l.name = f[0]
				defOf[l.name] = l
			}
			l.syms = lineSyms(t)
		case strings.HasPrefix(t, "(define-fun "):
			l.kind = 2
			f := strings.Fields(t[len("(define-fun "):])
			if len(f) > 0 {
				l.name = f[0]
				defOf[l.name] = l
			}
			l.syms = lineSyms(t)
		case strings.HasPrefix(t, "(assert "):
			l.kind = 3
			l.syms = lineSyms(t)
		default:
			l.keep = true
		}
	}
	// global section: everything before the first "alloc0" declaration is kept (sorts, global functions, axioms)
	for _, l := range ls {
		if l.kind == 1 && l.name == "alloc0" {
			break
		}
		l.keep = true
		l.global = true
	}
	cone := map[string]bool{}
	var work []string
	add := func(s string) {
		if !cone[s] && !ubiquitous(s) {
			cone[s] = true
			work = append(work, s)
		}
	}
	for i := end - 2; i < end; i++ {
		if i >= 0 {
			ls[i].keep = true
			for _, s := range ls[i].syms {
				add(s)
			}
		}
	}
	// index: symbol -> assert lines mentioning it
	byToken := map[string][]*ln{}
	for i, l := range ls {
		if l.kind == 3 && !l.keep && i < end-2 {
			for _, s := range l.syms {
				if !ubiquitous(s) {
					byToken[s] = append(byToken[s], l)
				}
			}
		}
	}
	for len(work) > 0 {
		s := work[len(work)-1]
		work = work[:len(work)-1]
		if d, ok := defOf[s]; ok && d.kind == 2 && !d.global {
			for _, t := range d.syms {
				add(t)
			}
		}
		for _, a := range byToken[s] {
			if !a.keep {
				a.keep = true
				for _, t := range a.syms {
					add(t)
				}
			}
		}
	}
	// well-formedness: definitions / declarations of every symbol used by kept lines (transitively)
	need := map[string]bool{}
	var stack []string
	for _, l := range ls {
		if l.keep && !l.global {
			for _, s := range l.syms {
				if !need[s] {
					need[s] = true
					stack = append(stack, s)
				}
			}
		}
	}
	for len(stack) > 0 {
		s := stack[len(stack)-1]
		stack = stack[:len(stack)-1]
		if d, ok := defOf[s]; ok && !d.global {
			d.keep = true
			for _, t := range d.syms {
				if !need[t] {
					need[t] = true
					stack = append(stack, t)
				}
			}
		}
	}
	var b strings.Builder
	kept, total := 0, 0
	for i, l := range ls {
		if l.kind == 3 && i < end-2 {
			total++
			if l.keep {
				kept++
			}
		}
		if l.keep {
			b.WriteString(l.text)
			b.WriteByte('\n')
		}
	}
	if kept == total {
		return "", false // nothing gained
	}
	return b.String(), true
}

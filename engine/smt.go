package main

// SMT-LIB script builder, Go type -> SMT sort mapping, zero values.

import (
	"fmt"
	"go/types"
	"sort"
	"strings"
)

type Term = string

// Script accumulates declarations, definitions and guarded assumptions in execution order.
type Script struct {
	sortDecls []string        // datatypes / sorts / global functions (always emitted in full, in order)
	sortSeen  map[string]bool // names declared in sortDecls
	lines     []string        // declare-fun / define-fun / assert in execution order
	declared  map[string]bool
	n         int
	usesStr   bool
	inQuant   int
	tags      map[int]int // line index -> goal tag: the line is a side fact of the evaluation of one goal only
	curTag    int
	tagSeq    int
	scopes    []*loopInfo // per line: innermost loop of the top-level function in whose body the line was emitted
	curScope  *loopInfo
}

// scopeOf brings the scope array up to date (lines appended since the last call belong to the current scope)
func (s *Script) syncScopes() {
	for len(s.scopes) < len(s.lines) {
		s.scopes = append(s.scopes, s.curScope)
	}
}

func (s *Script) setScope(li *loopInfo) {
	s.syncScopes()
	s.curScope = li
}

func newScript() *Script {
	s := &Script{sortSeen: map[string]bool{}, declared: map[string]bool{}}
	s.sortDecls = append(s.sortDecls,
		"(declare-datatypes ((Ref 0)) (((mkref (obj Int) (idx Int)))))",
		"(declare-datatypes ((Slice 0)) (((mkslice (sobj Int) (soff Int) (slen Int) (scap Int)))))",
		"(declare-datatypes ((Iface 0)) (((mkiface (itag Int) (ival Int)))))",
		"(declare-datatypes ((Time 0)) (((mktime (t_ns Int) (t_loc Ref)))))",
		"(declare-sort F64 0)",
		"(declare-sort F32 0)",
		"(declare-sort Opaque 0)",
		"(define-fun nilref () Ref (mkref 0 0))",
		"(declare-fun elemref (Slice Int) Ref)",
		"(assert (forall ((s Slice) (k Int)) (! (= (elemref s k) (mkref (sobj s) (+ (soff s) k))) :pattern ((elemref s k)))))",
		"(define-fun nilslice () Slice (mkslice 0 0 0 0))",
		"(define-fun niliface () Iface (mkiface 0 0))",
		"(declare-fun f64zero () F64)",
		"(declare-fun f32zero () F32)",
		"(declare-fun opaquezero () Opaque)",
		"(declare-fun time_UTC () Ref)",
		"(declare-fun time_Local () Ref)",
		"(assert (and (> (obj time_UTC) 0) (< (obj time_UTC) 1000) (= (idx time_UTC) 0)))",
		"(assert (and (> (obj time_Local) 0) (< (obj time_Local) 1000) (= (idx time_Local) 0) (not (= time_Local time_UTC))))",
		// zero time: year 1 UTC
		"(define-fun zerotime () Time (mktime (- 62135596800000000000) nilref))",
	)
	return s
}

func (s *Script) fresh(prefix string) string {
	s.n++
	return fmt.Sprintf("%s!%d", sanitize(prefix), s.n)
}

func sanitize(p string) string {
	var b strings.Builder
	for _, r := range p {
		switch {
		case r >= 'a' && r <= 'z', r >= 'A' && r <= 'Z', r >= '0' && r <= '9', r == '_', r == '.', r == '$':
			b.WriteRune(r)
		default:
			b.WriteRune('_')
		}
	}
	return b.String()
}

func (s *Script) declare(name, sort string) string {
	if !s.declared[name] {
		s.declared[name] = true
		s.lines = append(s.lines, fmt.Sprintf("(declare-fun %s () %s)", name, sort))
	}
	return name
}

func (s *Script) freshConst(prefix, sort string) string {
	if s.inQuant > 0 {
		unsupported("fresh symbol needed inside a quantified specification")
	}
	return s.declare(s.fresh(prefix), sort)
}

func (s *Script) define(prefix, sort string, t Term) string {
	// short terms are not worth naming
	if s.inQuant > 0 || (len(t) < 24 && !strings.Contains(t, " ")) {
		return t
	}
	n := s.fresh(prefix)
	s.declared[n] = true
	s.lines = append(s.lines, fmt.Sprintf("(define-fun %s () %s %s)", n, sort, t))
	return n
}

func (s *Script) assume(guard, fact Term) {
	if fact == "true" || s.inQuant > 0 {
		return
	}
	if guard == "true" {
		s.lines = append(s.lines, fmt.Sprintf("(assert %s)", fact))
	} else {
		s.lines = append(s.lines, fmt.Sprintf("(assert (=> %s %s))", guard, fact))
	}
}

// assumeClosed adds a closed fact even while a quantified specification is being evaluated
func (s *Script) assumeClosed(fact Term) {
	s.lines = append(s.lines, fmt.Sprintf("(assert %s)", fact))
}

func (s *Script) global(name, decl string) {
	if !s.sortSeen[name] {
		s.sortSeen[name] = true
		s.sortDecls = append(s.sortDecls, decl)
	}
}

func (s *Script) mark() int { return len(s.lines) }

// assumeLocal: a well-formedness fact about a term that only the goal currently being built mentions. It is
// rendered for obligations of that goal only; every other obligation never sees the term.
func (s *Script) assumeLocal(guard, fact Term) {
	n := len(s.lines)
	s.assume(guard, fact)
	if s.curTag != 0 && len(s.lines) == n+1 {
		if s.tags == nil {
			s.tags = map[int]int{}
		}
		s.tags[n] = s.curTag
	}
}

// goal runs f (evaluation of one specification clause and its obligations) with a fresh tag
func (s *Script) goal(f func()) {
	if s.curTag != 0 {
		f()
		return
	}
	s.tagSeq++
	s.curTag = s.tagSeq
	defer func() { s.curTag = 0 }()
	f()
}

// inScope: is the current program point inside loop sc (or one nested in it)?
func (s *Script) inScope(sc *loopInfo) bool {
	for c := s.curScope; c != nil; c = c.parent {
		if c == sc {
			return true
		}
	}
	return false
}

// render an obligation: everything up to mark, then the negated goal.
func (s *Script) render(mark int, guard, goal Term, comment string, logicStrings bool) string {
	var b strings.Builder
	b.WriteString("; " + strings.ReplaceAll(comment, "\n", "\n; ") + "\n")
	b.WriteString("(set-option :produce-models true)\n")
	b.WriteString("(set-logic ALL)\n")
	for _, d := range s.sortDecls {
		b.WriteString(d)
		b.WriteByte('\n')
	}
	s.syncScopes()
	for i, l := range s.lines[:mark] {
		if sc := s.scopes[i]; sc != nil && strings.HasPrefix(l, "(assert") && !sc.hasBreak && !s.inScope(sc) {
			continue // an assumption made inside a loop body that the current program point is not part of
		}
		if tg, ok := s.tags[i]; ok && tg != s.curTag {
			continue
		}
		b.WriteString(l)
		b.WriteByte('\n')
	}
	b.WriteString(fmt.Sprintf("(assert %s)\n(assert (not %s))\n(check-sat)\n", guard, goal))
	return b.String()
}

// renderHead: like render, but of the lines emitted after headMark only declarations and definitions are kept
func (s *Script) renderHead(headMark, mark int, guard, goal Term, comment string) string {
	var b strings.Builder
	b.WriteString("; " + strings.ReplaceAll(comment, "\n", "\n; ") + "\n")
	b.WriteString("(set-option :produce-models true)\n")
	b.WriteString("(set-logic ALL)\n")
	for _, d := range s.sortDecls {
		b.WriteString(d)
		b.WriteByte('\n')
	}
	s.syncScopes()
	for i, l := range s.lines[:mark] {
		isAssert := strings.HasPrefix(l, "(assert")
		if isAssert && i >= headMark {
			continue
		}
		if sc := s.scopes[i]; sc != nil && isAssert && !sc.hasBreak && !s.inScope(sc) {
			continue
		}
		if tg, ok := s.tags[i]; ok && tg != s.curTag {
			continue
		}
		b.WriteString(l)
		b.WriteByte('\n')
	}
	b.WriteString(fmt.Sprintf("(assert (not %s))\n(check-sat)\n", goal))
	return b.String()
}

// ---------------------------------------------------------------------------------------------
// helpers for building terms

func and(ts ...Term) Term {
	var out []Term
	for _, t := range ts {
		if t == "true" || t == "" {
			continue
		}
		if t == "false" {
			return "false"
		}
		out = append(out, t)
	}
	switch len(out) {
	case 0:
		return "true"
	case 1:
		return out[0]
	}
	return "(and " + strings.Join(out, " ") + ")"
}

func or(ts ...Term) Term {
	var out []Term
	for _, t := range ts {
		if t == "false" || t == "" {
			continue
		}
		if t == "true" {
			return "true"
		}
		out = append(out, t)
	}
	switch len(out) {
	case 0:
		return "false"
	case 1:
		return out[0]
	}
	return "(or " + strings.Join(out, " ") + ")"
}

func not(t Term) Term {
	switch t {
	case "true":
		return "false"
	case "false":
		return "true"
	}
	if strings.HasPrefix(t, "(not ") && strings.HasSuffix(t, ")") && balanced(t[5:len(t)-1]) {
		return t[5 : len(t)-1]
	}
	return "(not " + t + ")"
}

func balanced(s string) bool {
	d := 0
	for i, c := range s {
		if c == '(' {
			d++
		} else if c == ')' {
			d--
			if d == 0 && i != len(s)-1 {
				return false
			}
		}
		if d < 0 {
			return false
		}
	}
	if !strings.HasPrefix(s, "(") {
		return !strings.ContainsAny(s, " ")
	}
	return d == 0
}

func implies(a, b Term) Term {
	if a == "true" {
		return b
	}
	if b == "true" {
		return "true"
	}
	if a == "false" {
		return "true"
	}
	return "(=> " + a + " " + b + ")"
}

func eq(a, b Term) Term {
	if a == b {
		return "true"
	}
	return "(= " + a + " " + b + ")"
}

func ite(c, a, b Term) Term {
	if c == "true" || a == b {
		return a
	}
	if c == "false" {
		return b
	}
	return "(ite " + c + " " + a + " " + b + ")"
}

func app(f string, args ...Term) Term {
	if len(args) == 0 {
		return f
	}
	return "(" + f + " " + strings.Join(args, " ") + ")"
}

func intLit(v int64) Term {
	if v < 0 {
		return fmt.Sprintf("(- %d)", -v)
	}
	return fmt.Sprintf("%d", v)
}

func strLit(v string) Term {
	// SMT-LIB 2.6 string literal: "" escapes a quote, \u{XX} for others
	var b strings.Builder
	b.WriteByte('"')
	for i := 0; i < len(v); i++ {
		c := v[i]
		switch {
		case c == '"':
			b.WriteString(`""`)
		case c == '\\' || c < 0x20 || c >= 0x7f:
			fmt.Fprintf(&b, "\\u{%x}", c)
		default:
			b.WriteByte(c)
		}
	}
	b.WriteByte('"')
	return b.String()
}

// ---------------------------------------------------------------------------------------------
// type mapping

type TypeMap struct {
	s       *Script
	sorts   map[string]string // type string -> sort
	structs map[string]*StructInfo
	busy    map[string]bool
	tags    map[string]int // dynamic type tags for interfaces
	onHeapKey func(key string, t types.Type)
}

type StructInfo struct {
	Sort   string
	Ctor   string
	Fields []FieldInfo
	T      *types.Struct
}

type FieldInfo struct {
	Name string
	Sel  string
	Sort string
	Type types.Type
}

func newTypeMap(s *Script) *TypeMap {
	return &TypeMap{s: s, sorts: map[string]string{}, structs: map[string]*StructInfo{}, busy: map[string]bool{}, tags: map[string]int{}}
}

func typeKey(t types.Type) string {
	return types.TypeString(types.Unalias(t), nil)
}

func isTimeTime(t types.Type) bool {
	if n, ok := types.Unalias(t).(*types.Named); ok {
		return n.Obj().Pkg() != nil && n.Obj().Pkg().Path() == "time" && n.Obj().Name() == "Time"
	}
	return false
}

func isNamed(t types.Type, pkg, name string) bool {
	if n, ok := types.Unalias(t).(*types.Named); ok {
		return n.Obj().Pkg() != nil && n.Obj().Pkg().Path() == pkg && n.Obj().Name() == name
	}
	return false
}

func (tm *TypeMap) sortOf(t types.Type) string {
	t = types.Unalias(t)
	key := typeKey(t)
	if s, ok := tm.sorts[key]; ok {
		return s
	}
	s := tm.sortOf1(t)
	tm.sorts[key] = s
	return s
}

func (tm *TypeMap) sortOf1(t types.Type) string {
	if isTimeTime(t) {
		return "Time"
	}
	switch u := t.Underlying().(type) {
	case *types.Basic:
		switch {
		case u.Info()&types.IsBoolean != 0:
			return "Bool"
		case u.Info()&types.IsInteger != 0:
			return "Int"
		case u.Info()&types.IsString != 0:
			tm.s.usesStr = true
			return "String"
		case u.Kind() == types.Float32:
			return "F32"
		case u.Info()&types.IsFloat != 0:
			return "F64"
		case u.Kind() == types.UntypedNil:
			return "Ref"
		}
		return "Opaque"
	case *types.Pointer:
		return "Ref"
	case *types.Slice:
		return "Slice"
	case *types.Map:
		tm.mapInfo(u)
		return "Ref"
	case *types.Interface:
		return "Iface"
	case *types.Signature:
		return "Opaque"
	case *types.Chan:
		return "Opaque"
	case *types.Array:
		if u.Len() == 0 {
			return "Opaque"
		}
		return "(Array Int " + tm.sortOf(u.Elem()) + ")"
	case *types.Struct:
		return tm.structInfo(t).Sort
	case *types.Tuple:
		return "Opaque"
	}
	return "Opaque"
}

func (tm *TypeMap) structInfo(t types.Type) *StructInfo {
	t = types.Unalias(t)
	key := typeKey(t)
	if si, ok := tm.structs[key]; ok {
		return si
	}
	st := t.Underlying().(*types.Struct)
	name := "S|" + strings.ReplaceAll(strings.ReplaceAll(key, "|", "_"), "\\", "_") + "|"
	if len(name) > 120 {
		name = fmt.Sprintf("S|anon%d|", len(tm.structs))
	}
	sortName := "|" + name[2:len(name)-1] + "|"
	base := sanitize(key)
	if len(base) > 60 {
		base = fmt.Sprintf("anon%d", len(tm.structs))
	}
	si := &StructInfo{Sort: sortName, Ctor: "mk_" + base, T: st}
	tm.structs[key] = si
	if tm.busy[key] {
		panic("recursive struct value type " + key)
	}
	tm.busy[key] = true
	var fdecl []string
	for i := 0; i < st.NumFields(); i++ {
		f := st.Field(i)
		fs := tm.sortOf(f.Type())
		sel := fmt.Sprintf("%s..%s", base, sanitize(f.Name()))
		if f.Name() == "_" {
			sel = fmt.Sprintf("%s..blank%d", base, i)
		}
		si.Fields = append(si.Fields, FieldInfo{Name: f.Name(), Sel: sel, Sort: fs, Type: f.Type()})
		fdecl = append(fdecl, fmt.Sprintf("(%s %s)", sel, fs))
	}
	delete(tm.busy, key)
	if len(fdecl) == 0 {
		tm.s.global(sortName, fmt.Sprintf("(declare-datatypes ((%s 0)) (((%s))))", sortName, si.Ctor))
	} else {
		tm.s.global(sortName, fmt.Sprintf("(declare-datatypes ((%s 0)) (((%s %s))))", sortName, si.Ctor, strings.Join(fdecl, " ")))
	}
	return si
}

type MapInfo struct {
	Sort    string // datatype sort of the map cell
	Ctor    string
	Dom     string
	Val     string
	KeySort string
	ValSort string
	HeapKey string
}

func (tm *TypeMap) mapInfo(m *types.Map) *MapInfo {
	ks := tm.sortOf(m.Key())
	vs := tm.sortOf(m.Elem())
	base := sanitize("map_" + ks + "_" + vs)
	sortName := "|Map<" + strings.ReplaceAll(ks, "|", "") + "," + strings.ReplaceAll(vs, "|", "") + ">|"
	mi := &MapInfo{Sort: sortName, Ctor: "mk_" + base, Dom: base + "..dom", Val: base + "..val", KeySort: ks, ValSort: vs, HeapKey: "map:" + types.TypeString(m, nil)}
	tm.s.global(sortName, fmt.Sprintf("(declare-datatypes ((%s 0)) (((%s (%s (Array %s Bool)) (%s (Array %s %s)))))) ", sortName, mi.Ctor, mi.Dom, ks, mi.Val, ks, vs))
	return mi
}

// heap key and cell sort for a pointer's element type
func (tm *TypeMap) heapKey(elem types.Type) (key, sort string) {
	elem = types.Unalias(elem)
	k := typeKey(elem)
	if tm.onHeapKey != nil {
		tm.onHeapKey(k, elem)
	}
	return k, tm.sortOf(elem)
}

func (tm *TypeMap) zero(t types.Type) Term {
	t = types.Unalias(t)
	if isTimeTime(t) {
		return "(mktime (- 62135596800000000000) (mkref 0 0))"
	}
	switch u := t.Underlying().(type) {
	case *types.Basic:
		switch {
		case u.Info()&types.IsBoolean != 0:
			return "false"
		case u.Info()&types.IsInteger != 0:
			return "0"
		case u.Info()&types.IsString != 0:
			return `""`
		case u.Kind() == types.Float32:
			return "f32zero"
		case u.Info()&types.IsFloat != 0:
			return "f64zero"
		case u.Kind() == types.UntypedNil:
			return "(mkref 0 0)"
		}
		return "opaquezero"
	case *types.Pointer, *types.Map:
		return "(mkref 0 0)"
	case *types.Slice:
		return "(mkslice 0 0 0 0)"
	case *types.Interface:
		return "(mkiface 0 0)"
	case *types.Array:
		if u.Len() == 0 {
			return "opaquezero"
		}
		return fmt.Sprintf("((as const %s) %s)", tm.sortOf(t), tm.zero(u.Elem()))
	case *types.Struct:
		si := tm.structInfo(t)
		if len(si.Fields) == 0 {
			return si.Ctor
		}
		var args []string
		for _, f := range si.Fields {
			args = append(args, tm.zero(f.Type))
		}
		return "(" + si.Ctor + " " + strings.Join(args, " ") + ")"
	}
	return "opaquezero"
}

// functional update of field i of struct value v
func (tm *TypeMap) updateField(t types.Type, v Term, i int, nv Term) Term {
	si := tm.structInfo(t)
	var args []string
	for j, f := range si.Fields {
		if j == i {
			args = append(args, nv)
		} else {
			args = append(args, "("+f.Sel+" "+v+")")
		}
	}
	return "(" + si.Ctor + " " + strings.Join(args, " ") + ")"
}

func (tm *TypeMap) typeTag(t types.Type) int {
	k := typeKey(t)
	if v, ok := tm.tags[k]; ok {
		return v
	}
	v := len(tm.tags) + 1
	tm.tags[k] = v
	return v
}

// range constraint for integer typed values
func intRange(t types.Type, v Term) Term {
	b, ok := types.Unalias(t).Underlying().(*types.Basic)
	if !ok || b.Info()&types.IsInteger == 0 {
		return "true"
	}
	lo, hi := intBounds(b.Kind())
	return fmt.Sprintf("(and (<= %s %s) (<= %s %s))", lo, v, v, hi)
}

func intBounds(k types.BasicKind) (string, string) {
	switch k {
	case types.Int8:
		return "(- 128)", "127"
	case types.Int16:
		return "(- 32768)", "32767"
	case types.Int32:
		return "(- 2147483648)", "2147483647"
	case types.Int, types.Int64, types.UntypedInt, types.UntypedRune:
		return "(- 9223372036854775808)", "9223372036854775807"
	case types.Uint8:
		return "0", "255"
	case types.Uint16:
		return "0", "65535"
	case types.Uint32:
		return "0", "4294967295"
	case types.Uint, types.Uint64, types.Uintptr:
		return "0", "18446744073709551615"
	}
	return "(- 9223372036854775808)", "9223372036854775807"
}

func sortedKeys[V any](m map[string]V) []string {
	var ks []string
	for k := range m {
		ks = append(ks, k)
	}
	sort.Strings(ks)
	return ks
}

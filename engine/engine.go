package main

// Loading /repo, enumerating the functions under contract, driving verification.

import (
	"fmt"
	"go/types"
	"os"
	"path/filepath"
	"sort"
	"strings"

	"golang.org/x/tools/go/packages"
	"golang.org/x/tools/go/ssa"
	"golang.org/x/tools/go/ssa/ssautil"
)

const modulePath = "github.com/jamespfennell/gtfs"

type Engine struct {
	repo      string
	prog      *ssa.Program
	pkgs      []*ssa.Package
	pkgByPath map[string]*ssa.Package
	ppkgs     map[string]*packages.Package
	contracts *Contracts
	modsets   map[*ssa.Function]*Modset
	implCache map[string][]*ssa.Function
	allFuncs  map[*ssa.Function]bool
	tables    map[*ssa.Global]tableInfo
}

// packages whose functions are put under contract
var scopePkgs = map[string]bool{
	modulePath:                            true,
	modulePath + "/csv":                   true,
	modulePath + "/warnings":              true,
	modulePath + "/journal":               true,
	modulePath + "/extensions":            true,
	modulePath + "/extensions/nycttrips":  true,
	modulePath + "/extensions/nyctalerts": true,
}

func loadEngine(repo string) (*Engine, error) {
	cfg := &packages.Config{Mode: packages.LoadAllSyntax, Dir: repo, BuildFlags: []string{"-tags=verif"},
		Env: append(os.Environ(), "GOFLAGS=-mod=mod", "GOPROXY=off", "GOSUMDB=off", "GOTOOLCHAIN=local")}
	pkgs, err := packages.Load(cfg, "./...")
	if err != nil {
		return nil, err
	}
	for _, p := range pkgs {
		if len(p.Errors) > 0 && strings.HasPrefix(p.PkgPath, modulePath) {
			return nil, fmt.Errorf("package %s: %v", p.PkgPath, p.Errors[0])
		}
	}
	prog, spkgs := ssautil.AllPackages(pkgs, ssa.InstantiateGenerics|ssa.GlobalDebug)
	prog.Build()
	eng := &Engine{repo: repo, prog: prog, pkgByPath: map[string]*ssa.Package{}, ppkgs: map[string]*packages.Package{},
		modsets: map[*ssa.Function]*Modset{}, implCache: map[string][]*ssa.Function{}, contracts: newContracts(), tables: map[*ssa.Global]tableInfo{}}
	for i, p := range spkgs {
		if p == nil {
			continue
		}
		eng.pkgs = append(eng.pkgs, p)
		eng.pkgByPath[p.Pkg.Path()] = p
		eng.ppkgs[p.Pkg.Path()] = pkgs[i]
	}
	eng.allFuncs = ssautil.AllFunctions(prog)
	// contract files
	for path := range scopePkgs {
		pp := eng.ppkgs[path]
		if pp == nil {
			continue
		}
		dir := ""
		if len(pp.GoFiles) > 0 {
			dir = filepath.Dir(pp.GoFiles[0])
		}
		if dir == "" {
			continue
		}
		cf := filepath.Join(dir, "contracts_verif.go")
		if _, err := os.Stat(cf); err == nil {
			if err := eng.contracts.parseFile(cf, path); err != nil {
				return nil, err
			}
		}
	}
	return eng, nil
}

func (eng *Engine) isExternal(fn *ssa.Function) bool {
	if fn.Pkg == nil {
		// synthetic wrappers and instantiations: look at the origin / object package
		if o := fn.Origin(); o != nil && o.Pkg != nil {
			return !strings.HasPrefix(o.Pkg.Pkg.Path(), modulePath)
		}
		if fn.Object() != nil && fn.Object().Pkg() != nil {
			return !strings.HasPrefix(fn.Object().Pkg().Path(), modulePath)
		}
		if fn.Parent() != nil {
			return eng.isExternal(fn.Parent())
		}
		return len(fn.Blocks) == 0
	}
	return !strings.HasPrefix(fn.Pkg.Pkg.Path(), modulePath) || len(fn.Blocks) == 0
}

func (eng *Engine) pkgPathOf(fn *ssa.Function) string {
	if fn.Pkg != nil {
		return fn.Pkg.Pkg.Path()
	}
	if o := fn.Origin(); o != nil && o.Pkg != nil {
		return o.Pkg.Pkg.Path()
	}
	if fn.Object() != nil && fn.Object().Pkg() != nil {
		return fn.Object().Pkg().Path()
	}
	if fn.Parent() != nil {
		return eng.pkgPathOf(fn.Parent())
	}
	return ""
}

func (eng *Engine) isGenerated(fn *ssa.Function) bool {
	return eng.pkgPathOf(fn) == modulePath+"/proto"
}

// relName: name relative to its package: F, (T).M, (*T).M, F$1, G[int]
func (eng *Engine) relName(fn *ssa.Function) string {
	var pkg *types.Package
	if p := eng.pkgByPath[eng.pkgPathOf(fn)]; p != nil {
		pkg = p.Pkg
	}
	return fn.RelString(pkg)
}

// relNameQ: short package qualifier + relName
func (eng *Engine) relNameQ(fn *ssa.Function) string {
	p := eng.pkgPathOf(fn)
	short := strings.TrimPrefix(strings.TrimPrefix(p, modulePath), "/")
	if short == "" {
		short = "gtfs"
	}
	return short + ":" + eng.relName(fn)
}

func (eng *Engine) contractFor(fn *ssa.Function) *FuncContract {
	p := eng.pkgPathOf(fn)
	if fc, ok := eng.contracts.Funcs[p+"."+eng.relName(fn)]; ok {
		return fc
	}
	if o := fn.Origin(); o != nil {
		if fc, ok := eng.contracts.Funcs[p+"."+eng.relName(o)]; ok {
			return fc
		}
	}
	return nil
}

func (eng *Engine) importAlias(p *ssa.Package, imp *types.Package) string {
	pp := eng.ppkgs[p.Pkg.Path()]
	if pp == nil {
		return ""
	}
	for _, f := range pp.Syntax {
		for _, is := range f.Imports {
			if strings.Trim(is.Path.Value, `"`) == imp.Path() && is.Name != nil {
				return is.Name.Name
			}
		}
	}
	return ""
}

// implementations of an interface method among the repository's own concrete types
func (eng *Engine) implementations(it types.Type, m *types.Func) []*ssa.Function {
	key := typeKey(it) + "." + m.Name()
	if r, ok := eng.implCache[key]; ok {
		return r
	}
	iface, ok := it.Underlying().(*types.Interface)
	if !ok {
		return nil
	}
	var out []*ssa.Function
	seen := map[string]bool{}
	for _, p := range eng.pkgs {
		if !strings.HasPrefix(p.Pkg.Path(), modulePath) {
			continue
		}
		for _, mem := range p.Members {
			tn, ok := mem.(*ssa.Type)
			if !ok {
				continue
			}
			for _, t := range []types.Type{tn.Type(), types.NewPointer(tn.Type())} {
				if _, isIface := t.Underlying().(*types.Interface); isIface {
					continue
				}
				if !types.Implements(t, iface) {
					continue
				}
				// prefer the value type when it implements
				if pt, isPtr := t.(*types.Pointer); isPtr && types.Implements(pt.Elem(), iface) {
					continue
				}
				sel := eng.prog.MethodSets.MethodSet(t).Lookup(m.Pkg(), m.Name())
				if sel == nil {
					continue
				}
				f := eng.prog.MethodValue(sel)
				if f != nil && !seen[f.String()] {
					seen[f.String()] = true
					out = append(out, f)
				}
			}
		}
	}
	sort.Slice(out, func(i, j int) bool { return out[i].String() < out[j].String() })
	eng.implCache[key] = out
	return out
}

// typeByName: "pkgpath.Name" or "*pkgpath.Name"
func (eng *Engine) typeByName(name string) types.Type {
	ptr := strings.HasPrefix(name, "*")
	name = strings.TrimPrefix(name, "*")
	i := strings.LastIndex(name, ".")
	if i < 0 {
		return nil
	}
	p := eng.pkgByPath[name[:i]]
	if p == nil {
		p = eng.pkgByPath[modulePath+"/"+name[:i]]
	}
	if p == nil {
		return nil
	}
	obj := p.Pkg.Scope().Lookup(name[i+1:])
	if obj == nil {
		return nil
	}
	if ptr {
		return types.NewPointer(obj.Type())
	}
	return obj.Type()
}

// isProtoMsgPtr: pointer to a generated protobuf message struct
func (eng *Engine) isProtoMsgPtr(t types.Type) bool {
	pt, ok := types.Unalias(t).Underlying().(*types.Pointer)
	if !ok {
		return false
	}
	n, ok := types.Unalias(pt.Elem()).(*types.Named)
	if !ok || n.Obj().Pkg() == nil || n.Obj().Pkg().Path() != modulePath+"/proto" {
		return false
	}
	_, isStruct := n.Underlying().(*types.Struct)
	return isStruct
}

// constTable: the (key, value) constants init stores into a package-level map variable, provided the variable is
// assigned exactly once (in init, from a fresh map) and the map is updated only there, with constants.
func (eng *Engine) constTable(g *ssa.Global) ([][2]*ssa.Const, bool) {
	if r, ok := eng.tables[g]; ok {
		return r.entries, r.ok
	}
	res := tableInfo{}
	eng.tables[g] = res
	init := g.Pkg.Func("init")
	if init == nil {
		return nil, false
	}
	var mk *ssa.MakeMap
	stores := 0
	for fn := range eng.allFuncs {
		for _, b := range fn.Blocks {
			for _, ins := range b.Instrs {
				if s, ok := ins.(*ssa.Store); ok && s.Addr == g {
					stores++
					if fn != init {
						return nil, false
					}
					m, ok := s.Val.(*ssa.MakeMap)
					if !ok {
						return nil, false
					}
					mk = m
				}
			}
		}
	}
	if stores != 1 || mk == nil {
		return nil, false
	}
	var entries [][2]*ssa.Const
	for _, ref := range *mk.Referrers() {
		switch u := ref.(type) {
		case *ssa.MapUpdate:
			k, ok1 := u.Key.(*ssa.Const)
			v, ok2 := u.Value.(*ssa.Const)
			if !ok1 || !ok2 {
				return nil, false
			}
			entries = append(entries, [2]*ssa.Const{k, v})
		case *ssa.Store, *ssa.DebugRef:
		default:
			return nil, false
		}
	}
	// the map must not be updated through the variable elsewhere: every other use of the global is a load whose
	// result is only looked up
	for fn := range eng.allFuncs {
		if fn == init {
			continue
		}
		for _, b := range fn.Blocks {
			for _, ins := range b.Instrs {
				ld, ok := ins.(*ssa.UnOp)
				if !ok || ld.X != g {
					continue
				}
				for _, ref := range *ld.Referrers() {
					switch ref.(type) {
					case *ssa.Lookup, *ssa.DebugRef:
					default:
						return nil, false
					}
				}
			}
		}
	}
	res = tableInfo{entries: entries, ok: true}
	eng.tables[g] = res
	return entries, true
}

type tableInfo struct {
	entries [][2]*ssa.Const
	ok      bool
}

// concreteImplementers: the repository's concrete types whose method set satisfies iface
func (eng *Engine) concreteImplementers(iface *types.Interface) []types.Type {
	var out []types.Type
	for _, p := range eng.pkgs {
		if !strings.HasPrefix(p.Pkg.Path(), modulePath) {
			continue
		}
		for _, mem := range p.Members {
			tn, ok := mem.(*ssa.Type)
			if !ok {
				continue
			}
			if _, isIface := tn.Type().Underlying().(*types.Interface); isIface {
				continue
			}
			if types.Implements(tn.Type(), iface) {
				out = append(out, tn.Type())
			} else if types.Implements(types.NewPointer(tn.Type()), iface) {
				out = append(out, types.NewPointer(tn.Type()))
			}
		}
	}
	sort.Slice(out, func(i, j int) bool { return typeKey(out[i]) < typeKey(out[j]) })
	return out
}

// targets: every non-generated function, method and closure of the packages in scope
func (eng *Engine) targets() []*ssa.Function {
	var out []*ssa.Function
	for fn := range eng.allFuncs {
		if fn.Synthetic != "" && !strings.HasPrefix(fn.Synthetic, "instance of") {
			continue
		}
		if len(fn.Blocks) == 0 {
			continue
		}
		p := eng.pkgPathOf(fn)
		if !scopePkgs[p] {
			continue
		}
		if fn.Name() == "init" && fn.Parent() == nil {
			continue
		}
		if fn.Pos().IsValid() {
			file := eng.prog.Fset.Position(fn.Pos()).Filename
			if strings.HasSuffix(file, "_test.go") {
				continue
			}
		}
		// loop-free helpers without a contract are verified in the context of each caller (inlined),
		// not stand-alone for arbitrary arguments
		if eng.contractFor(fn) == nil && len(findLoops(fn)) == 0 && !eng.isAPI(fn) {
			continue
		}
		if fc := eng.contractFor(fn); fc != nil && fc.Inline && len(fc.Ensures) == 0 {
			continue // inlined everywhere and nothing to check stand-alone
		}
		if fn.TypeParams().Len() > 0 && len(fn.TypeArgs()) == 0 {
			continue // generic origin: its instances are verified
		}
		out = append(out, fn)
	}
	sort.Slice(out, func(i, j int) bool { return eng.relNameQ(out[i]) < eng.relNameQ(out[j]) })
	return out
}

// isAPI: exported function, or exported method of an exported type
func (eng *Engine) isAPI(fn *ssa.Function) bool {
	if fn.Parent() != nil || fn.Object() == nil || !fn.Object().Exported() {
		return false
	}
	if recv := fn.Signature.Recv(); recv != nil {
		t := recv.Type()
		if pt, ok := t.(*types.Pointer); ok {
			t = pt.Elem()
		}
		if n, ok := types.Unalias(t).(*types.Named); ok {
			return n.Obj().Exported()
		}
		return false
	}
	return true
}

type FnResult struct {
	Name        string
	Fn          *ssa.Function
	Obs         []*Obligation
	Unsupported string
	Assumptions []string
	Trusted     []string
	Uncontr     []string
	Bounded     []string
	HasContract bool
	Props       []string
	AlsoProps   []string // properties named by single postconditions ([label also Cxx])
	UsedCallees []string // functions under contract called modularly (their postconditions are relied upon)
}

func (eng *Engine) newFnCtx(fn *ssa.Function, fc *FuncContract) *FnCtx {
	s := newScript()
	fx := &FnCtx{eng: eng, top: fn, fc: fc, s: s, tm: newTypeMap(s), obNames: map[string]int{}, heapSort: map[string]string{}, heapType: map[string]types.Type{},
		assump: map[string]bool{}, uncontr: map[string]bool{}, trusted: map[string]bool{}, bounded: map[string]bool{}, ghostFuncs: map[string]ghostFn{}}
	if fn != nil {
		fx.pkg = eng.pkgByPath[eng.pkgPathOf(fn)]
	}
	fx.tm.onHeapKey = func(k string, t types.Type) { fx.heapType[k] = t }
	registerGhosts(fx)
	return fx
}

func (eng *Engine) verifyFunc(fn *ssa.Function) (res *FnResult) {
	fc := eng.contractFor(fn)
	fx := eng.newFnCtx(fn, fc)
	res = &FnResult{Name: eng.relNameQ(fn), Fn: fn, HasContract: fc != nil}
	if fc != nil {
		res.Props = fc.Props
		for _, c := range fc.Ensures {
			res.AlsoProps = append(res.AlsoProps, c.Props...)
		}
	}
	defer func() {
		if r := recover(); r != nil {
			if ue, ok := r.(*UnsupportedError); ok {
				res.Unsupported = ue.msg
			} else {
				panic(r)
			}
		}
		res.Obs = fx.obs
		res.Assumptions = sortedKeys(fx.assump)
		res.Trusted = sortedKeys(fx.trusted)
		res.Uncontr = sortedKeys(fx.uncontr)
		res.UsedCallees = sortedKeys(fx.usedCallees)
		res.Bounded = sortedKeys(fx.bounded)
	}()
	if fc != nil && fc.Trusted {
		res.Unsupported = "contract marked trusted (assumed, body not verified)"
		return
	}
	s := fx.s
	st := &State{guard: "true", heaps: map[string]Term{}, base: "0", ghost: map[string]Term{}}
	st.alloc = s.declare("alloc0", "Int")
	s.assume("true", "(>= alloc0 1000)")
	initGhostState(fx, st)
	var args []Val
	for _, p := range fn.Params {
		args = append(args, fx.havocVal("p_"+p.Name(), p.Type(), st))
	}
	var binds []Val
	for _, fv := range fn.FreeVars {
		v := fx.havocVal("fv_"+fv.Name(), fv.Type(), st)
		s.assume("true", not(eq(v.t, "nilref")))
		binds = append(binds, v)
	}
	fx.entry = st.clone()
	fx.allocEntry = st.alloc
	fr := fx.newFrame(fn, true)
	fr.fc = fc
	for i, p := range fn.Params {
		fr.env[p] = args[i]
	}
	for i, fv := range fn.FreeVars {
		fr.env[fv] = binds[i]
	}
	if fc != nil {
		if fc.Assigns != nil {
			env := fx.calleeEnv(fn, args, binds)
			fx.hasAssigns = true
			fx.assignSet = fx.resolveAssigns(fc, env, st)
		}
		var reqs []Term
		fx.assumeMode = true
		for _, c := range fc.Requires {
			t := fr.evalSpec(c.E, st, nil).v.t
			reqs = append(reqs, t)
			s.assume("true", t)
		}
		fx.assumeMode = false
		if len(reqs) > 0 {
			// vacuity guard: the precondition must be satisfiable
			ob := &Obligation{Name: res.Name2(eng) + "/cover/requires", Kind: "cover", Func: eng.relName(fn), Text: "requires is satisfiable", Props: fc.Props, MustSat: true}
			ob.SMT = s.render(s.mark(), "true", "false", "cover (must be sat): precondition of "+eng.relName(fn), true)
			fx.obs = append(fx.obs, ob)
		}
	}
	fr.run(args, binds, st)
	return
}

func (r *FnResult) Name2(eng *Engine) string { return eng.relName(r.Fn) }

func (eng *Engine) verifyLemma(l *Lemma) (res *FnResult) {
	fx := eng.newFnCtx(nil, nil)
	fx.pkg = eng.pkgByPath[l.Pkg]
	res = &FnResult{Name: "lemma:" + l.Name, Props: l.Props, HasContract: true}
	defer func() {
		if r := recover(); r != nil {
			if ue, ok := r.(*UnsupportedError); ok {
				res.Unsupported = ue.msg
			} else {
				panic(r)
			}
		}
		res.Obs = fx.obs
		res.Assumptions = sortedKeys(fx.assump)
		res.Trusted = sortedKeys(fx.trusted)
	}()
	s := fx.s
	st := &State{guard: "true", heaps: map[string]Term{}, base: "0", ghost: map[string]Term{}}
	st.alloc = s.declare("alloc0", "Int")
	s.assume("true", "(>= alloc0 1000)")
	initGhostState(fx, st)
	fx.entry = st.clone()
	fx.allocEntry = st.alloc
	t := fx.evalIn(l.E, map[string]SVal{}, st, st, nil).v.t
	ob := &Obligation{Name: "lemma/" + l.Name, Kind: "lemma", Func: "lemma", Text: l.Text, Props: l.Props, MustSat: l.MustFail}
	if l.MustFail {
		ob.Kind = "canary"
	}
	ob.SMT = s.render(s.mark(), "true", t, "lemma "+l.Name+"\n"+l.Text, true)
	fx.obs = append(fx.obs, ob)
	return
}

package main

// Structural frame obligations for C06 (history-freedom) and C18 (race-freedom): what the per-function `assigns`
// obligations cannot see, because it is a whole-program condition on package-level state.
//
//   For every function of the packages in scope (test files and package initialisers excluded):
//     - no store through an address derived from a package-level variable, no map update / delete on a map loaded
//       from one, no call of a method on a package-level variable of a synchronisation or container type
//       (sync.Map, sync.Mutex, sync.Pool, atomic.*), no `go` statement.
//   Package-level variables may only be read (compiled regexps, constant tables, templates).
//
// Each hit is an obligation that cannot be discharged: it is reported as a violation naming the function and variable.

import (
	"fmt"
	"go/types"
	"sort"
	"strings"

	"golang.org/x/tools/go/ssa"
)

type sharedHit struct {
	Func string
	Var  string
	What string
	Pos  string
}

func (eng *Engine) sharedStateScan() (hits []sharedHit, nFuncs, nInstrs int, readOnly []string) {
	reads := map[string]bool{}
	var globalRoot func(v ssa.Value, depth int) *ssa.Global
	globalRoot = func(v ssa.Value, depth int) *ssa.Global {
		if depth > 8 {
			return nil
		}
		switch x := v.(type) {
		case *ssa.Global:
			return x
		case *ssa.FieldAddr:
			return globalRoot(x.X, depth+1)
		case *ssa.IndexAddr:
			return globalRoot(x.X, depth+1)
		case *ssa.UnOp:
			return globalRoot(x.X, depth+1)
		case *ssa.Field:
			return globalRoot(x.X, depth+1)
		case *ssa.ChangeType:
			return globalRoot(x.X, depth+1)
		case *ssa.MakeInterface:
			return globalRoot(x.X, depth+1)
		}
		return nil
	}
	inScopeGlobal := func(g *ssa.Global) bool {
		return g != nil && g.Pkg != nil && scopePkgs[g.Pkg.Pkg.Path()]
	}
	for fn := range eng.allFuncs {
		if len(fn.Blocks) == 0 || !scopePkgs[eng.pkgPathOf(fn)] {
			continue
		}
		if fn.Synthetic != "" && !strings.HasPrefix(fn.Synthetic, "instance of") {
			continue
		}
		top := fn
		for top.Parent() != nil {
			top = top.Parent()
		}
		if top.Name() == "init" {
			continue
		}
		if fn.Pos().IsValid() && strings.HasSuffix(eng.prog.Fset.Position(fn.Pos()).Filename, "_test.go") {
			continue
		}
		nFuncs++
		name := eng.relNameQ(fn)
		hit := func(ins ssa.Instruction, g *ssa.Global, what string) {
			pos := ""
			if ins.Pos().IsValid() {
				p := eng.prog.Fset.Position(ins.Pos())
				pos = fmt.Sprintf("%s:%d", p.Filename, p.Line)
			}
			v := ""
			if g != nil {
				v = g.Pkg.Pkg.Name() + "." + g.Name()
			}
			hits = append(hits, sharedHit{Func: name, Var: v, What: what, Pos: pos})
		}
		for _, b := range fn.Blocks {
			for _, ins := range b.Instrs {
				nInstrs++
				switch x := ins.(type) {
				case *ssa.Store:
					if g := globalRoot(x.Addr, 0); inScopeGlobal(g) {
						hit(ins, g, "store to a package-level variable")
					}
				case *ssa.MapUpdate:
					if g := globalRoot(x.Map, 0); inScopeGlobal(g) {
						hit(ins, g, "update of a package-level map")
					}
				case *ssa.Go:
					hit(ins, nil, "go statement")
				case *ssa.UnOp:
					if g, ok := x.X.(*ssa.Global); ok && inScopeGlobal(g) {
						reads[g.Pkg.Pkg.Name()+"."+g.Name()] = true
					}
				}
				if c, ok := ins.(ssa.CallInstruction); ok {
					cc := c.Common()
					if bi, ok := cc.Value.(*ssa.Builtin); ok && bi.Name() == "delete" {
						if g := globalRoot(cc.Args[0], 0); inScopeGlobal(g) {
							hit(ins, g, "delete from a package-level map")
						}
					}
					// a package-level variable (or its address) handed to a method of a synchronisation / mutable container type
					for i, a := range cc.Args {
						g := globalRoot(a, 0)
						if !inScopeGlobal(g) {
							continue
						}
						t := types.Unalias(a.Type())
						if pt, ok := t.Underlying().(*types.Pointer); ok {
							t = pt.Elem()
						}
						ts := types.TypeString(t, nil)
						if strings.HasPrefix(ts, "sync.") || strings.HasPrefix(ts, "sync/atomic.") {
							hit(ins, g, fmt.Sprintf("package-level %s used as argument %d of %s", ts, i, cc.Value.Name()))
						}
					}
				}
			}
		}
	}
	for r := range reads {
		readOnly = append(readOnly, r)
	}
	sort.Strings(readOnly)
	sort.Slice(hits, func(i, j int) bool { return hits[i].Func+hits[i].Var < hits[j].Func+hits[j].Var })
	return
}

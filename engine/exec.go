package main

// Symbolic execution of go/ssa function bodies into verification conditions.
//
// Strategy: each function body is processed once, block by block in reverse post-order of the CFG with back
// edges removed. The symbolic state at a join is the ite-merge of the predecessors' states (no path explosion).
// Loop headers are cut points: invariant asserted on entry, modified state havoced, invariant assumed, and the
// invariant re-asserted on every back edge. Calls to functions under contract use only the callee's contract.

import (
	"path/filepath"
	"os"
	"runtime/debug"
	"fmt"
	"go/constant"
	"go/token"
	"go/types"
	"sort"
	"strings"

	"golang.org/x/tools/go/ssa"
)

type Val struct {
	t   Term
	loc *Loc
	clo *Closure
	tup []Val
	it  *Iter
}

type PathElem struct {
	field int  // struct field index, or -1 for array index
	idx   Term // array index
}

// Loc is a pointer into the inside of a heap cell: cell (of type cell) at ref base, then path.
type Loc struct {
	base Term
	cell types.Type
	path []PathElem
}

type Closure struct {
	fn       *ssa.Function
	bindings []Val
}

type Iter struct {
	isMap   bool
	x       Val
	typ     types.Type
	visited Term // map: Array K Bool ; string: position Int
}

type State struct {
	guard Term
	heaps map[string]Term
	base  string
	alloc Term
	ghost map[string]Term
}

func (s *State) clone() *State {
	n := &State{guard: s.guard, heaps: map[string]Term{}, base: s.base, alloc: s.alloc, ghost: map[string]Term{}}
	for k, v := range s.heaps {
		n.heaps[k] = v
	}
	for k, v := range s.ghost {
		n.ghost[k] = v
	}
	return n
}

type Obligation struct {
	Name    string
	Kind    string // post, pre@call, inv-init, inv-pres, variant, safe:nil, safe:index, ..., frame, lemma, canary, cover
	Func    string
	Props   []string
	Text    string // human readable: contract text or instruction
	SMT     string
	Pos     string
	SMTHead string // goal with its lemma hypotheses, assuming only what is known at the loop head (the loop body's assertions dropped: a proof from fewer assumptions is a proof)
	SMTAlt  string // the same goal without the lemma hypotheses of its clause group (a proof of either is a proof)
	MustSat bool // canaries / covers: expected sat
	Clause  *Clause // post obligations: the ensures clause they come from
}

type UnsupportedError struct{ msg string }

func (e *UnsupportedError) Error() string { return e.msg }

func unsupported(format string, a ...any) {
	if os.Getenv("GOVC_TRACE") != "" {
		debug.PrintStack()
	}
	panic(&UnsupportedError{fmt.Sprintf(format, a...)})
}

// FnCtx: verification context of one top-level function (or lemma).
type FnCtx struct {
	eng        *Engine
	top        *ssa.Function
	fc         *FuncContract
	s          *Script
	tm         *TypeMap
	obs        []*Obligation
	obNames    map[string]int
	entry      *State
	heapSort   map[string]string // heap key -> cell sort
	heapType   map[string]types.Type
	depth      int
	quiet      int // >0: suppress obligations (spec evaluation of Go functions)
	assump     map[string]bool
	uncontr    map[string]bool
	cut         bool // prefix-only: some path was cut at an unsupported construct
	usedCallees map[string]bool // functions whose contract this function's proof relies on (modular calls)
	hasAssigns bool
	assignSet  *AssignSet
	allocEntry Term
	curFrame   *Frame
	pkg        *ssa.Package
	trusted    map[string]bool
	bounded    map[string]bool
	ghostFuncs map[string]ghostFn
	stack      []*ssa.Function
	curClause       *Clause
	hypLabels       []string
	headMarkForHyps int
	hyps       []Term // goals already proved at the same program point (step clauses are proved in order, each may use the earlier ones)
	assumeMode bool // specification currently evaluated is going to be assumed (not proved)
	trigNames  map[string]string
}

type assignLoc struct {
	kind  string // cell, field, slice, map
	ref   Term   // cell ref / map ref
	slice Term
	field int
	typ   types.Type
}

type Frame struct {
	fx          *FnCtx
	fn          *ssa.Function
	env         map[ssa.Value]Val
	exit        map[*ssa.BasicBlock]*State
	edge        map[[2]int]Term
	rets        []retInfo
	loops       map[*ssa.BasicBlock]*loopInfo
	top         bool
	fc          *FuncContract
	entrySt     *State
	params      map[string]SVal
	names       map[string]ssa.Value // debug names (last def)
	sigOverride *types.Signature
	debugRefs   map[string][]ssa.Value
	debugRefs2  map[string][]*ssa.DebugRef
	callStates  map[string][]*State
	evalAt      *ssa.BasicBlock
	nameTypeFilter string // set while a name#Type identifier is being resolved
	visitedMode int // 0: at loop head, 1: at loop entry (inv-init), 2: at a back edge
	preCallStates map[string][]*State
	lastRet     *ssa.Return
	addrNames   map[string]ssa.Value // names of address-taken variables -> their address
	prefix      string
}

type retInfo struct {
	guard Term
	vals  []Val
	st    *State
}

type loopInfo struct {
	header       *ssa.BasicBlock
	body         map[*ssa.BasicBlock]bool
	ordinal      int
	preSt        *State
	hdrSt        *State
	phiVals      map[*ssa.Phi]Val
	variant      Term
	rangeIx      *ssa.Phi
	resolved     map[string]ssa.Value
	resolvedAddr map[string]bool
	parent       *loopInfo
	hasBreak     bool
	visited      Term // map-range loops: the set of keys visited before the current iteration (Array K Bool)
	visitedNext  Term // ... after the current iteration
	headMark     int // script position right after the invariants have been assumed at the loop head
	visitedSort  string
}

func (fx *FnCtx) oblige(kind, name, text string, st *State, goal Term, pos token.Pos, props []string) {
	if fx.quiet > 0 {
		return
	}
	// split top-level conjunctions so that a failure names the conjunct
	if (kind == "post" || kind == "inv-init" || kind == "inv-pres" || kind == "pre@call") && strings.HasPrefix(goal, "(and ") {
		if parts := splitSexp(goal[5 : len(goal)-1]); len(parts) > 1 {
			saved := fx.hyps
			for i, p := range parts {
				fx.oblige(kind, fmt.Sprintf("%s.%d", name, i+1), text, st, p, pos, props)
				// later conjuncts of the same clause may use the earlier ones
				if !strings.Contains(p, "(forall ") && !strings.Contains(p, "(exists ") && len(p) < 20000 {
					fx.hyps = append(append([]Term{}, fx.hyps...), p)
				}
			}
			fx.hyps = saved
			return
		}
	}
	if (kind == "post" || kind == "inv-init" || kind == "inv-pres" || kind == "pre@call") && strings.HasPrefix(goal, "(=> ") {
		if ps := splitSexp(goal[4 : len(goal)-1]); len(ps) == 2 && strings.HasPrefix(ps[1], "(and ") {
			if parts := splitSexp(ps[1][5 : len(ps[1])-1]); len(parts) > 1 {
				saved := fx.hyps
				for i, p := range parts {
					g := "(=> " + ps[0] + " " + p + ")"
					fx.oblige(kind, fmt.Sprintf("%s.%d", name, i+1), text, st, g, pos, props)
					if !strings.Contains(g, "(forall ") && !strings.Contains(g, "(exists ") && len(g) < 20000 {
						fx.hyps = append(append([]Term{}, fx.hyps...), g)
					}
				}
				fx.hyps = saved
				return
			}
		}
	}
	if goal == "true" || st.guard == "false" {
		// trivially discharged; still count it (solver-free)
		goal = "true"
	}
	full := name
	fx.obNames[full]++
	if n := fx.obNames[full]; n > 1 {
		full = fmt.Sprintf("%s#%d", full, n)
	}
	ob := &Obligation{Name: full, Kind: kind, Func: fx.topName(), Text: text, Props: props, Clause: fx.curClause}
	if pos.IsValid() {
		p := fx.eng.prog.Fset.Position(pos)
		ob.Pos = fmt.Sprintf("%s:%d", p.Filename, p.Line)
	}
	if len(fx.hyps) > 0 && goal != "true" {
		ob.SMTAlt = fx.s.render(fx.s.mark(), st.guard, goal, fmt.Sprintf("obligation %s (without lemma hypotheses)\nkind %s\n%s\n%s", full, kind, text, ob.Pos), true)
		goal = "(=> " + and(fx.hyps...) + " " + goal + ")"
		if fx.headMarkForHyps > 0 {
			ob.SMTHead = fx.s.renderHead(fx.headMarkForHyps, fx.s.mark(), st.guard, goal, fmt.Sprintf("obligation %s (from the loop-head assumptions and the step lemmas only)\nkind %s\n%s\n%s", full, kind, text, ob.Pos))
		}
	}
	ob.SMT = fx.s.render(fx.s.mark(), st.guard, goal, fmt.Sprintf("obligation %s\nkind %s\n%s\n%s", full, kind, text, ob.Pos), true)
	fx.obs = append(fx.obs, ob)
	// assert-then-assume, for quantifier-free goals only: a quantified goal asserted in a state whose heaps are
	// ite/append terms is a source of matching loops for every later obligation
	// (nothing is executed after a back edge or a return: goals proved there are of no use to later obligations)
	if !strings.Contains(goal, "(forall ") && !strings.Contains(goal, "(exists ") && kind != "inv-pres" && kind != "post" && kind != "variant" {
		fx.s.assume(st.guard, goal)
	}
}

// splitSexp splits a sequence of s-expressions at top level
func splitSexp(s string) []string {
	var out []string
	depth := 0
	start := -1
	inStr := false
	inBar := false
	for i := 0; i < len(s); i++ {
		c := s[i]
		if inStr {
			if c == '"' {
				inStr = false
				if depth == 0 && start >= 0 {
					if i+1 < len(s) && s[i+1] == '"' {
						inStr = true
						i++
						continue
					}
					out = append(out, s[start:i+1])
					start = -1
				}
			}
			continue
		}
		if inBar {
			if c == '|' {
				inBar = false
			}
			continue
		}
		switch c {
		case '"':
			inStr = true
			if depth == 0 && start < 0 {
				start = i
			}
		case '|':
			inBar = true
			if depth == 0 && start < 0 {
				start = i
			}
		case '(':
			if depth == 0 && start < 0 {
				start = i
			}
			depth++
		case ')':
			depth--
			if depth == 0 && start >= 0 {
				out = append(out, s[start:i+1])
				start = -1
			}
		case ' ', '\t', '\n':
			if depth == 0 && start >= 0 {
				out = append(out, s[start:i])
				start = -1
			}
		default:
			if depth == 0 && start < 0 {
				start = i
			}
		}
	}
	if start >= 0 {
		out = append(out, s[start:])
	}
	return out
}

func (fx *FnCtx) topName() string {
	if fx.top != nil {
		return fx.eng.relName(fx.top)
	}
	return "lemma"
}

// ---------------------------------------------------------------------------------------------
// heap access

func (fx *FnCtx) heap(st *State, key, sort string) Term {
	if h, ok := st.heaps[key]; ok {
		return h
	}
	fx.heapSort[key] = sort
	name := fmt.Sprintf("H|%s|@%s", strings.NewReplacer("|", "_", "\\", "_").Replace(key), st.base)
	name = "|" + strings.ReplaceAll(name, "|", "_") + "|"
	if !fx.s.declared[name] {
		fx.s.declare(name, "(Array Ref "+sort+")")
		_ = key // well-formedness of values read from the heap is assumed per read (wfFacts), not by a global axiom
	}
	st.heaps[key] = name
	return name
}

// heapWF: every pointer stored in heap h was allocated no later than allocBound (holds for every reachable Go
// heap: a stored pointer refers to an object that already exists).
func (fx *FnCtx) heapWF(key, h string, allocBound Term) {
	t, ok := fx.heapType[key]
	if !ok {
		return
	}
	var facts []Term
	var walk func(t types.Type, v Term, depth int)
	walk = func(t types.Type, v Term, depth int) {
		if depth > 3 {
			return
		}
		switch u := types.Unalias(t).Underlying().(type) {
		case *types.Pointer, *types.Map:
			facts = append(facts, fmt.Sprintf("(<= (obj %s) %s)", v, allocBound))
		case *types.Slice:
			facts = append(facts, fmt.Sprintf("(<= (sobj %s) %s)", v, allocBound))
		case *types.Struct:
			if isTimeTime(t) {
				facts = append(facts, fmt.Sprintf("(<= (obj (t_loc %s)) %s)", v, allocBound))
				return
			}
			si := fx.tm.structInfo(t)
			for _, f := range si.Fields {
				walk(f.Type, "("+f.Sel+" "+v+")", depth+1)
			}
			_ = u
		}
	}
	walk(t, "(select "+h+" r)", 0)
	if len(facts) > 0 {
		fx.s.assumeClosed(fmt.Sprintf("(forall ((r Ref)) (! %s :pattern ((select %s r))))", and(facts...), h))
	}
}

func (fx *FnCtx) setHeap(st *State, key, sort string, h Term) {
	fx.heapSort[key] = sort
	st.heaps[key] = fx.s.define("H", "(Array Ref "+sort+")", h)
}

func (fx *FnCtx) ptrLoc(v Val, elem types.Type) *Loc {
	if v.loc != nil {
		return v.loc
	}
	return &Loc{base: v.t, cell: elem}
}

func (fx *FnCtx) pathType(l *Loc) types.Type {
	t := l.cell
	for _, pe := range l.path {
		if pe.field >= 0 {
			t = t.Underlying().(*types.Struct).Field(pe.field).Type()
		} else {
			t = t.Underlying().(*types.Array).Elem()
		}
	}
	return t
}

func (fx *FnCtx) readPath(cellT types.Type, cell Term, path []PathElem) Term {
	t := cellT
	v := cell
	for _, pe := range path {
		if pe.field >= 0 {
			si := fx.tm.structInfo(t)
			v = "(" + si.Fields[pe.field].Sel + " " + v + ")"
			t = si.Fields[pe.field].Type
		} else {
			v = "(select " + v + " " + pe.idx + ")"
			t = t.Underlying().(*types.Array).Elem()
		}
	}
	return v
}

func (fx *FnCtx) writePath(cellT types.Type, cell Term, path []PathElem, nv Term) Term {
	if len(path) == 0 {
		return nv
	}
	pe := path[0]
	if pe.field >= 0 {
		si := fx.tm.structInfo(cellT)
		inner := fx.writePath(si.Fields[pe.field].Type, "("+si.Fields[pe.field].Sel+" "+cell+")", path[1:], nv)
		return fx.tm.updateField(cellT, cell, pe.field, inner)
	}
	et := cellT.Underlying().(*types.Array).Elem()
	inner := fx.writePath(et, "(select "+cell+" "+pe.idx+")", path[1:], nv)
	return "(store " + cell + " " + pe.idx + " " + inner + ")"
}

func (fx *FnCtx) load(st *State, l *Loc) Term {
	if arr, ok := l.cell.Underlying().(*types.Array); ok && len(l.path) == 0 {
		// whole array behind a pointer: elements live in the element heap
		if arr.Len() > 16 {
			unsupported("load of large array value")
		}
		key, srt := fx.tm.heapKey(arr.Elem())
		h := fx.heap(st, key, srt)
		v := fx.tm.zero(l.cell)
		for i := int64(0); i < arr.Len(); i++ {
			v = fmt.Sprintf("(store %s %d (select %s (mkref (obj %s) (+ (idx %s) %d))))", v, i, h, l.base, l.base, i)
		}
		return v
	}
	key, srt := fx.tm.heapKey(l.cell)
	h := fx.heap(st, key, srt)
	return fx.readPath(l.cell, "(select "+h+" "+l.base+")", l.path)
}

func (fx *FnCtx) store(st *State, l *Loc, v Term) {
	if arr, ok := l.cell.Underlying().(*types.Array); ok && len(l.path) == 0 {
		if arr.Len() > 16 {
			unsupported("store of large array value")
		}
		key, srt := fx.tm.heapKey(arr.Elem())
		h := fx.heap(st, key, srt)
		for i := int64(0); i < arr.Len(); i++ {
			h = fmt.Sprintf("(store %s (mkref (obj %s) (+ (idx %s) %d)) (select %s %d))", h, l.base, l.base, i, v, i)
		}
		fx.setHeap(st, key, srt, h)
		return
	}
	key, srt := fx.tm.heapKey(l.cell)
	h := fx.heap(st, key, srt)
	cell := "(select " + h + " " + l.base + ")"
	nv := fx.writePath(l.cell, cell, l.path, v)
	fx.setHeap(st, key, srt, "(store "+h+" "+l.base+" "+nv+")")
}

// fresh allocation: returns a Ref with a new object id
func (fx *FnCtx) allocRef(st *State, n Term) Term {
	_ = n
	na := fx.s.define("alloc", "Int", "(+ "+st.alloc+" 1)")
	st.alloc = na
	return "(mkref " + na + " 0)"
}

// wfFacts: facts every value of type t read from a reachable Go state satisfies: pointers refer to objects that
// already exist (obj <= current allocation counter), slices are well formed, integers are in range.
func (fx *FnCtx) wfFacts(st *State, t types.Type, v Term, depth int) []Term {
	var out []Term
	if depth > 3 {
		return nil
	}
	switch u := types.Unalias(t).Underlying().(type) {
	case *types.Pointer, *types.Map:
		out = append(out, fmt.Sprintf("(and (<= 0 (obj %s)) (<= (obj %s) %s) (=> (= (obj %s) 0) (= %s nilref)))", v, v, st.alloc, v, v))
	case *types.Slice:
		out = append(out, fmt.Sprintf("(and (<= 0 (sobj %s)) (<= (sobj %s) %s) (<= 0 (soff %s)) (<= 0 (slen %s)) (<= (slen %s) (scap %s)) (=> (= (sobj %s) 0) (= (scap %s) 0)))", v, v, st.alloc, v, v, v, v, v, v))
	case *types.Basic:
		if u.Info()&types.IsInteger != 0 {
			out = append(out, intRange(t, v))
		}
		if u.Info()&types.IsString != 0 {
			out = append(out, "(<= (str.len "+v+") 9223372036854775807)")
		}
	case *types.Struct:
		if isTimeTime(t) {
			out = append(out, fmt.Sprintf("(and (<= 0 (obj (t_loc %s))) (<= (obj (t_loc %s)) %s))", v, v, st.alloc))
			return out
		}
		si := fx.tm.structInfo(t)
		for _, f := range si.Fields {
			switch types.Unalias(f.Type).Underlying().(type) {
			case *types.Pointer, *types.Map, *types.Slice, *types.Basic, *types.Struct:
				out = append(out, fx.wfFacts(st, f.Type, "("+f.Sel+" "+v+")", depth+1)...)
			}
		}
	}
	return out
}

// assume that a value read from memory / parameters is well formed in state st
func (fx *FnCtx) assumeOld(st *State, t types.Type, v Term) {
	for _, f := range fx.wfFacts(st, t, v, 0) {
		fx.s.assume(st.guard, f)
	}
}

// ---------------------------------------------------------------------------------------------
// frames

func (fx *FnCtx) newFrame(fn *ssa.Function, top bool) *Frame {
	return &Frame{fx: fx, fn: fn, env: map[ssa.Value]Val{}, exit: map[*ssa.BasicBlock]*State{}, edge: map[[2]int]Term{},
		loops: map[*ssa.BasicBlock]*loopInfo{}, top: top, names: map[string]ssa.Value{}, addrNames: map[string]ssa.Value{}}
}

func (fr *Frame) val(v ssa.Value) Val {
	fx := fr.fx
	switch c := v.(type) {
	case *ssa.Const:
		return fx.constVal(c)
	case *ssa.Function:
		return Val{clo: &Closure{fn: c}}
	case *ssa.Global:
		return fx.globalRef(c)
	case *ssa.Builtin:
		unsupported("builtin as value")
	}
	if x, ok := fr.env[v]; ok {
		return x
	}
	unsupported("value %s (%T) not bound in %s", v.Name(), v, fr.fn.Name())
	return Val{}
}

func (fx *FnCtx) constVal(c *ssa.Const) Val {
	t := c.Type()
	if c.Value == nil {
		return Val{t: fx.tm.zero(t)}
	}
	switch c.Value.Kind() {
	case constant.Bool:
		if constant.BoolVal(c.Value) {
			return Val{t: "true"}
		}
		return Val{t: "false"}
	case constant.String:
		fx.tm.s.usesStr = true
		return Val{t: strLit(constant.StringVal(c.Value))}
	case constant.Int:
		if b, ok := t.Underlying().(*types.Basic); ok && b.Info()&types.IsFloat != 0 {
			return Val{t: fx.floatConst(t, c.Value.ExactString())}
		}
		s := c.Value.ExactString()
		if strings.HasPrefix(s, "-") {
			return Val{t: "(- " + s[1:] + ")"}
		}
		return Val{t: s}
	case constant.Float:
		return Val{t: fx.floatConst(t, c.Value.ExactString())}
	}
	unsupported("constant %s", c)
	return Val{}
}

func (fx *FnCtx) floatConst(t types.Type, lit string) Term {
	srt := fx.tm.sortOf(t)
	if lit == "0" {
		if srt == "F32" {
			return "f32zero"
		}
		return "f64zero"
	}
	name := "fconst_" + srt + "_" + sanitize(lit)
	fx.s.global(name, fmt.Sprintf("(declare-fun %s () %s)", name, srt))
	return name
}

// package-level variables: each global is a cell with a fixed, old ref
func (fx *FnCtx) globalRef(g *ssa.Global) Val {
	if g.Pkg.Pkg.Path() == "time" && g.Name() == "UTC" {
		// time.UTC is a *Location variable: its cell holds time_UTC
		name := "glob_time_UTC"
		fx.s.global(name, fmt.Sprintf("(declare-fun %s () Ref)", name))
		fx.s.global(name+"!ax", fmt.Sprintf("(assert (and (> (obj %s) 0) (< (obj %s) 1000)))", name, name))
		return Val{t: name, loc: nil}
	}
	name := "glob_" + sanitize(g.Pkg.Pkg.Path()+"."+g.Name())
	fx.s.global(name, fmt.Sprintf("(declare-fun %s () Ref)", name))
	fx.s.global(name+"!ax", fmt.Sprintf("(assert (and (> (obj %s) 0) (< (obj %s) 1000) (= (idx %s) 0)))", name, name, name))
	return Val{t: name}
}

// globalTable: a package-level map variable of the repository that its package's init builds from constants
// only (and that no other function assigns or updates, checked by scanning the whole program) denotes a fixed,
// non-nil map whose content is the table in the source.
func (fx *FnCtx) globalTable(g *ssa.Global, st *State) (Term, bool) {
	mt, ok := g.Type().Underlying().(*types.Pointer).Elem().Underlying().(*types.Map)
	if !ok || !strings.HasPrefix(g.Pkg.Pkg.Path(), modulePath) {
		return "", false
	}
	entries, ok := fx.eng.constTable(g)
	if !ok {
		return "", false
	}
	mi := fx.tm.mapInfo(mt)
	ref := "globtab_" + sanitize(g.Pkg.Pkg.Path()+"."+g.Name())
	if !fx.s.sortSeen[ref] {
		fx.s.global(ref, fmt.Sprintf("(declare-fun %s () Ref)", ref))
		fx.s.global(ref+"!ax", fmt.Sprintf("(assert (and (> (obj %s) 0) (< (obj %s) 1000) (= (idx %s) 0)))", ref, ref, ref))
		dom := fmt.Sprintf("((as const (Array %s Bool)) false)", mi.KeySort)
		mv0 := "mapval0_" + sanitize(mi.Sort)
		fx.s.global(mv0, fmt.Sprintf("(declare-fun %s () (Array %s %s))", mv0, mi.KeySort, mi.ValSort))
		val := mv0
		for _, e := range entries {
			k := fx.constVal(e[0]).t
			v := fx.constVal(e[1]).t
			dom = fmt.Sprintf("(store %s %s true)", dom, k)
			val = fmt.Sprintf("(store %s %s %s)", val, k, v)
		}
		h := fx.heap(fx.entry, mi.HeapKey, mi.Sort)
		fx.s.assumeClosed(fmt.Sprintf("(= (select %s %s) (%s %s %s))", h, ref, mi.Ctor, dom, val))
		fx.trusted["package-level table "+g.Name()+" is built from constants in init and never modified afterwards (no other store or map update to it exists in the program: checked syntactically)"] = true
	}
	return ref, true
}

// ---------------------------------------------------------------------------------------------
// CFG utilities

func isBackEdge(from, to *ssa.BasicBlock) bool {
	return to.Dominates(from)
}

func rpo(fn *ssa.Function) []*ssa.BasicBlock {
	seen := map[*ssa.BasicBlock]bool{}
	var post []*ssa.BasicBlock
	var dfs func(b *ssa.BasicBlock)
	dfs = func(b *ssa.BasicBlock) {
		seen[b] = true
		for _, s := range b.Succs {
			if isBackEdge(b, s) || seen[s] {
				continue
			}
			dfs(s)
		}
		post = append(post, b)
	}
	dfs(fn.Blocks[0])
	for i, j := 0, len(post)-1; i < j; i, j = i+1, j-1 {
		post[i], post[j] = post[j], post[i]
	}
	return post
}

func findLoops(fn *ssa.Function) map[*ssa.BasicBlock]*loopInfo {
	loops := map[*ssa.BasicBlock]*loopInfo{}
	for _, b := range fn.Blocks {
		for _, s := range b.Succs {
			if isBackEdge(b, s) {
				li := loops[s]
				if li == nil {
					li = &loopInfo{header: s, body: map[*ssa.BasicBlock]bool{s: true}, phiVals: map[*ssa.Phi]Val{}}
					loops[s] = li
				}
				// natural loop: nodes that reach b without passing through s
				var stack []*ssa.BasicBlock
				if !li.body[b] {
					li.body[b] = true
					stack = append(stack, b)
				}
				for len(stack) > 0 {
					x := stack[len(stack)-1]
					stack = stack[:len(stack)-1]
					for _, p := range x.Preds {
						if !li.body[p] {
							li.body[p] = true
							stack = append(stack, p)
						}
					}
				}
			}
		}
	}
	var hdrs []*ssa.BasicBlock
	for h := range loops {
		hdrs = append(hdrs, h)
	}
	sort.Slice(hdrs, func(i, j int) bool { return hdrs[i].Index < hdrs[j].Index })
	for _, h := range hdrs {
		li := loops[h]
		// innermost enclosing loop
		for _, h2 := range hdrs {
			if h2 == h {
				continue
			}
			l2 := loops[h2]
			if l2.body[h] && (li.parent == nil || len(l2.body) < len(li.parent.body)) {
				li.parent = l2
			}
		}
		for b := range li.body {
			if b == h {
				continue
			}
			for _, sc := range b.Succs {
				if !li.body[sc] {
					li.hasBreak = true
				}
			}
		}
	}
	for i, h := range hdrs {
		loops[h].ordinal = i + 1
		for _, ins := range h.Instrs {
			if p, ok := ins.(*ssa.Phi); ok && p.Comment == "rangeindex" {
				loops[h].rangeIx = p
			}
		}
	}
	return loops
}

// ---------------------------------------------------------------------------------------------
// executing a function body

// run executes fn with the given argument values starting in state st. For the top-level frame, post
// obligations are emitted at returns. Returns merged results and the merged exit state (nil if no return).
func (fr *Frame) run(args []Val, bindings []Val, st *State) ([]Val, *State) {
	fx := fr.fx
	fn := fr.fn
	if len(fn.Blocks) == 0 {
		unsupported("function %s has no body", fn.String())
	}
	prev := fx.curFrame
	fx.curFrame = fr
	defer func() { fx.curFrame = prev }()
	for i, p := range fn.Params {
		fr.env[p] = args[i]
	}
	for i, fv := range fn.FreeVars {
		fr.env[fv] = bindings[i]
	}
	fr.loops = findLoops(fn)
	order := rpo(fn)
	for _, b := range order {
		var cur *State
		if b == fn.Blocks[0] {
			cur = st
		} else {
			cur = fr.mergePreds(b, false)
			if cur == nil {
				continue
			}
		}
		if fr.top {
			fx.s.setScope(fr.scopeOf(b))
		}
		if li, ok := fr.loops[b]; ok {
			cur = fr.enterLoop(li, cur)
		} else {
			// ordinary phis
			for _, ins := range b.Instrs {
				phi, ok := ins.(*ssa.Phi)
				if !ok {
					break
				}
				fr.env[phi] = fr.mergePhi(phi, b, false)
			}
		}
		fr.execBlock(b, cur)
	}
	if len(fr.rets) == 0 {
		return nil, nil
	}
	vals, out := fr.mergeRets()
	if fr.top {
		fr.atReturn(fr.lastRet, vals, out)
	}
	return vals, out
}

// scopeOf: the innermost loop whose body (excluding its header) contains block b
func (fr *Frame) scopeOf(b *ssa.BasicBlock) *loopInfo {
	var best *loopInfo
	for _, li := range fr.loops {
		if li.body[b] && li.header != b {
			if best == nil || len(li.body) < len(best.body) {
				best = li
			}
		}
	}
	if best == nil {
		// a header block belongs to the scope of its parent loop
		if li, ok := fr.loops[b]; ok {
			return li.parent
		}
	}
	return best
}

func (fr *Frame) edgeGuard(p, b *ssa.BasicBlock) (Term, *State) {
	ps := fr.exit[p]
	if ps == nil {
		return "false", nil
	}
	c := fr.edge[[2]int{p.Index, b.Index}]
	if c == "" {
		c = "true"
	}
	return and(ps.guard, c), ps
}

func (fr *Frame) mergePreds(b *ssa.BasicBlock, backOnly bool) *State {
	fx := fr.fx
	type inc struct {
		g  Term
		st *State
	}
	var incs []inc
	seenPred := map[*ssa.BasicBlock]bool{}
	for _, p := range b.Preds {
		if isBackEdge(p, b) != backOnly {
			continue
		}
		if seenPred[p] {
			continue
		}
		seenPred[p] = true
		g, ps := fr.edgeGuard(p, b)
		if ps == nil || g == "false" {
			continue
		}
		incs = append(incs, inc{g, ps})
	}
	if len(incs) == 0 {
		return nil
	}
	if len(incs) == 1 {
		n := incs[0].st.clone()
		n.guard = fx.s.define("g", "Bool", incs[0].g)
		return n
	}
	var gs []Term
	for i := range incs {
		incs[i].g = fx.s.define("eg", "Bool", incs[i].g)
		gs = append(gs, incs[i].g)
	}
	out := &State{heaps: map[string]Term{}, ghost: map[string]Term{}}
	out.guard = fx.s.define("g", "Bool", or(gs...))
	// base: if all same keep; else materialize
	sameBase := true
	for _, in := range incs[1:] {
		if in.st.base != incs[0].st.base {
			sameBase = false
		}
	}
	keys := map[string]bool{}
	for _, in := range incs {
		for k := range in.st.heaps {
			keys[k] = true
		}
	}
	if !sameBase {
		for k := range fx.heapSort {
			keys[k] = true
		}
		out.base = fx.s.fresh("mb")
	} else {
		out.base = incs[0].st.base
	}
	for _, k := range sortedKeys(keys) {
		srt := fx.heapSort[k]
		var t Term
		for i := len(incs) - 1; i >= 0; i-- {
			h := fx.heap(incs[i].st, k, srt)
			if i == len(incs)-1 {
				t = h
			} else {
				t = ite(incs[i].g, h, t)
			}
		}
		out.heaps[k] = fx.s.define("Hm", "(Array Ref "+srt+")", t)
	}
	// alloc
	{
		var t Term
		for i := len(incs) - 1; i >= 0; i-- {
			if i == len(incs)-1 {
				t = incs[i].st.alloc
			} else {
				t = ite(incs[i].g, incs[i].st.alloc, t)
			}
		}
		out.alloc = fx.s.define("alloc", "Int", t)
	}
	gk := map[string]bool{}
	for _, in := range incs {
		for k := range in.st.ghost {
			gk[k] = true
		}
	}
	for _, k := range sortedKeys(gk) {
		var t Term
		ok := true
		for i := len(incs) - 1; i >= 0; i-- {
			g, has := incs[i].st.ghost[k]
			if !has {
				ok = false
				break
			}
			if i == len(incs)-1 {
				t = g
			} else {
				t = ite(incs[i].g, g, t)
			}
		}
		if ok {
			out.ghost[k] = t
		}
	}
	return out
}

func (fr *Frame) mergePhi(phi *ssa.Phi, b *ssa.BasicBlock, backOnly bool) Val {
	fx := fr.fx
	type inc struct {
		g Term
		v Val
	}
	var incs []inc
	for i, p := range b.Preds {
		if isBackEdge(p, b) != backOnly {
			continue
		}
		g, ps := fr.edgeGuard(p, b)
		if ps == nil || g == "false" {
			continue
		}
		incs = append(incs, inc{g, fr.val(phi.Edges[i])})
	}
	if len(incs) == 0 {
		unsupported("phi with no live incoming edge")
	}
	res := incs[len(incs)-1].v
	for i := len(incs) - 2; i >= 0; i-- {
		res = fx.mergeVal(incs[i].g, incs[i].v, res, phi.Type())
	}
	if res.t != "" {
		res.t = fx.s.define(phi.Name(), fx.tm.sortOf(phi.Type()), res.t)
	}
	return res
}

func (fx *FnCtx) mergeVal(g Term, a, b Val, t types.Type) Val {
	if a.loc != nil || b.loc != nil {
		if a.loc != nil && b.loc != nil && len(a.loc.path) == len(b.loc.path) && typeKey(a.loc.cell) == typeKey(b.loc.cell) {
			same := true
			for i := range a.loc.path {
				if a.loc.path[i] != b.loc.path[i] {
					same = false
				}
			}
			if same {
				return Val{loc: &Loc{base: ite(g, a.loc.base, b.loc.base), cell: a.loc.cell, path: a.loc.path}}
			}
		}
		unsupported("merge of interior pointers")
	}
	if a.clo != nil || b.clo != nil {
		if a.clo != nil && b.clo != nil && a.clo.fn == b.clo.fn && len(a.clo.bindings) == 0 {
			return a
		}
		unsupported("merge of closures")
	}
	if a.tup != nil {
		var out []Val
		tt := t.(*types.Tuple)
		for i := range a.tup {
			out = append(out, fx.mergeVal(g, a.tup[i], b.tup[i], tt.At(i).Type()))
		}
		return Val{tup: out}
	}
	if a.it != nil || b.it != nil {
		unsupported("merge of iterators")
	}
	return Val{t: ite(g, a.t, b.t)}
}

func (fr *Frame) mergeRets() ([]Val, *State) {
	fx := fr.fx
	if len(fr.rets) == 1 {
		return fr.rets[0].vals, fr.rets[0].st
	}
	// build pseudo merge
	n := len(fr.rets[0].vals)
	res := make([]Val, n)
	rt := fr.fn.Signature.Results()
	if fr.sigOverride != nil {
		rt = fr.sigOverride.Results()
	}
	for i := 0; i < n; i++ {
		v := fr.rets[len(fr.rets)-1].vals[i]
		for j := len(fr.rets) - 2; j >= 0; j-- {
			v = fx.mergeVal(fr.rets[j].guard, fr.rets[j].vals[i], v, rt.At(i).Type())
		}
		if v.t != "" {
			v.t = fx.s.define("ret", fx.tm.sortOf(rt.At(i).Type()), v.t)
		}
		res[i] = v
	}
	// merge states via a fake block mechanism
	out := &State{heaps: map[string]Term{}, ghost: map[string]Term{}}
	var gs []Term
	for _, r := range fr.rets {
		gs = append(gs, r.guard)
	}
	out.guard = fx.s.define("g", "Bool", or(gs...))
	sameBase := true
	keys := map[string]bool{}
	for _, r := range fr.rets {
		if r.st.base != fr.rets[0].st.base {
			sameBase = false
		}
		for k := range r.st.heaps {
			keys[k] = true
		}
	}
	if sameBase {
		out.base = fr.rets[0].st.base
	} else {
		out.base = fx.s.fresh("mb")
		for k := range fx.heapSort {
			keys[k] = true
		}
	}
	for _, k := range sortedKeys(keys) {
		srt := fx.heapSort[k]
		var t Term
		for i := len(fr.rets) - 1; i >= 0; i-- {
			h := fx.heap(fr.rets[i].st, k, srt)
			if i == len(fr.rets)-1 {
				t = h
			} else {
				t = ite(fr.rets[i].guard, h, t)
			}
		}
		out.heaps[k] = fx.s.define("Hm", "(Array Ref "+srt+")", t)
	}
	var t Term
	for i := len(fr.rets) - 1; i >= 0; i-- {
		if i == len(fr.rets)-1 {
			t = fr.rets[i].st.alloc
		} else {
			t = ite(fr.rets[i].guard, fr.rets[i].st.alloc, t)
		}
	}
	out.alloc = fx.s.define("alloc", "Int", t)
	gk := map[string]bool{}
	for _, r := range fr.rets {
		for k := range r.st.ghost {
			gk[k] = true
		}
	}
	for _, k := range sortedKeys(gk) {
		var t Term
		ok := true
		for i := len(fr.rets) - 1; i >= 0; i-- {
			g, has := fr.rets[i].st.ghost[k]
			if !has {
				ok = false
				break
			}
			if i == len(fr.rets)-1 {
				t = g
			} else {
				t = ite(fr.rets[i].guard, g, t)
			}
		}
		if ok {
			out.ghost[k] = t
		}
	}
	return res, out
}

// ---------------------------------------------------------------------------------------------
// loops

func (fr *Frame) loopContract(li *loopInfo) (invs []*Clause, decr *Clause) {
	if fr.fc == nil {
		return nil, nil
	}
	return fr.fc.Invs[li.ordinal], fr.fc.Decr[li.ordinal]
}

func (fr *Frame) enterLoop(li *loopInfo, pre *State) *State {
	fx := fr.fx
	b := li.header
	li.preSt = pre.clone()
	invs, decr := fr.loopContract(li)
	name := fr.obName()
	// 1. entry values of phis
	entryVals := map[*ssa.Phi]Val{}
	for _, ins := range b.Instrs {
		phi, ok := ins.(*ssa.Phi)
		if !ok {
			break
		}
		entryVals[phi] = fr.mergePhi(phi, b, false)
	}
	// map-range loops: ghost set of visited keys
	for _, ins := range b.Instrs {
		if nx, ok := ins.(*ssa.Next); ok {
			if rg, ok := nx.Iter.(*ssa.Range); ok {
				if mt, ok := rg.X.Type().Underlying().(*types.Map); ok {
					mi := fx.tm.mapInfo(mt)
					li.visitedSort = "(Array " + mi.KeySort + " Bool)"
					li.visited = fx.s.freshConst("visited", li.visitedSort)
				}
			}
		}
	}
	// 2. inv-init
	for phi, v := range entryVals {
		fr.env[phi] = v
	}
	for _, c := range fr.autoInvs(li) {
		fx.oblige("inv-init", fmt.Sprintf("%s/inv-init/loop%d/auto:%s", name, li.ordinal, c.label), c.text, pre, c.eval(pre), b.Instrs[0].Pos(), nil)
	}
	fr.visitedMode = 1
	for _, c := range invs {
		fx.s.goal(func() {
			t := fr.evalClause(c, pre, li)
			fx.oblige("inv-init", fmt.Sprintf("%s/inv-init/loop%d/%s", name, li.ordinal, c.Label), c.Text, pre, t, b.Instrs[0].Pos(), fr.props())
		})
	}
	fr.visitedMode = 0
	if fr.fc != nil {
		for _, c := range fr.fc.Entries[li.ordinal] {
			t := fr.evalClause(c, pre, li)
			fx.oblige("inv-init", fmt.Sprintf("%s/entry/loop%d/%s", name, li.ordinal, c.Label), c.Text, pre, t, b.Instrs[0].Pos(), fr.props())
		}
	}
	// 3. havoc
	hs := pre.clone()
	mod := fx.eng.loopModset(fr.fn, li)
	fx.havocHeapsR(hs, mod, func(v ssa.Value) (Term, bool) {
		x, ok := fr.env[v]
		if !ok || x.t == "" {
			return "", false
		}
		return x.t, true
	})
	for _, ins := range b.Instrs {
		phi, ok := ins.(*ssa.Phi)
		if !ok {
			break
		}
		fr.env[phi] = fx.havocVal(phi.Name()+"_h", phi.Type(), hs)
		li.phiVals[phi] = fr.env[phi]
	}
	fx.frameAssumption(hs, pre)
	li.hdrSt = hs.clone()
	// 4. assume invariants
	for _, c := range fr.autoInvs(li) {
		fx.s.assume(hs.guard, c.eval(hs))
	}
	fx.assumeMode = true
	for _, c := range invs {
		fx.s.assume(hs.guard, fr.evalClause(c, hs, li))
	}
	fx.assumeMode = false
	if decr != nil {
		sv := fr.evalSpec(decr.E, hs, li)
		li.variant = fx.s.define("variant", "Int", sv.v.t)
	}
	li.headMark = fx.s.mark()
	return hs
}

type autoInv struct {
	label string
	text  string
	eval  func(st *State) Term
}

// automatic invariant for `range` index loops: -1 <= phi <= len-1
func (fr *Frame) autoInvs(li *loopInfo) []autoInv {
	if li.rangeIx == nil {
		return nil
	}
	phi := li.rangeIx
	// find bound: the If condition in the header compares (phi+1) < N
	var bound ssa.Value
	for _, ins := range li.header.Instrs {
		if bo, ok := ins.(*ssa.BinOp); ok && bo.Op == token.LSS {
			if add, ok := bo.X.(*ssa.BinOp); ok && add.X == phi {
				bound = bo.Y
			}
		}
	}
	if bound == nil {
		return nil
	}
	if _, bound2 := fr.env[bound]; !bound2 {
		if _, isConst := bound.(*ssa.Const); !isConst {
			return nil
		}
	}
	return []autoInv{{label: "rangeindex", text: "-1 <= rangeindex <= len-1", eval: func(st *State) Term {
		p := fr.val(phi).t
		n := fr.val(bound).t
		return fmt.Sprintf("(and (<= (- 1) %s) (<= %s (- %s 1)) (<= 0 %s))", p, p, n, n)
	}}}
}

func (fr *Frame) backEdge(from *ssa.BasicBlock, li *loopInfo, st *State) {
	fx := fr.fx
	b := li.header
	invs, decr := fr.loopContract(li)
	name := fr.obName()
	// bind phis to back-edge values
	saved := map[*ssa.Phi]Val{}
	idx := -1
	for i, p := range b.Preds {
		if p == from {
			idx = i
		}
	}
	for _, ins := range b.Instrs {
		phi, ok := ins.(*ssa.Phi)
		if !ok {
			break
		}
		saved[phi] = fr.env[phi]
		fr.env[phi] = fr.val(phi.Edges[idx])
	}
	for _, c := range fr.autoInvs(li) {
		fx.oblige("inv-pres", fmt.Sprintf("%s/inv-pres/loop%d/auto:%s", name, li.ordinal, c.label), c.text, st, c.eval(st), b.Instrs[0].Pos(), nil)
	}
	fx.s.goal(func() {
	if fr.fc != nil {
		for _, c := range fr.fc.Steps[li.ordinal] {
			fx.s.goal(func() {
				fr.evalAt = from
				t, okT := fx.tryClauseIdent(fr, c, st, li)
				fr.evalAt = nil
				if !okT {
					// the clause names a variable of the loop body that is not yet declared on this path (an early
					// `continue`): it says nothing about this path
					fx.bounded[fmt.Sprintf("step clause [%s] of loop %d of %s is not evaluated at the back edge from block %d: a variable it names is not in scope there", c.Label, li.ordinal, fr.obName(), from.Index)] = true
					return
				}
				fx.oblige("inv-pres", fmt.Sprintf("%s/step/loop%d/%s", name, li.ordinal, c.Label), c.Text, st, t, b.Instrs[0].Pos(), fr.props())
				// as a lemma for the later clauses of this back edge the clause is used in its assumed form (the
				// well-formedness facts of the memory it reads are conjuncts there, not hypotheses)
				fx.assumeMode = true
				fr.evalAt = from
				ta, okA := fx.tryClause(fr, c, st, li)
				fr.evalAt = nil
				fx.assumeMode = false
				if okA && len(ta) < 30000 {
					fx.hyps = append(fx.hyps, ta)
					fx.hypLabels = append(fx.hypLabels, c.Label)
				} else if len(t) < 20000 {
					fx.hyps = append(fx.hyps, t)
					fx.hypLabels = append(fx.hypLabels, c.Label)
				}
			})
		}
	}
	fr.visitedMode = 2
	fx.headMarkForHyps = li.headMark
	for _, c := range invs {
		fx.s.goal(func() {
			t := fr.evalClause(c, st, li)
			all := fx.hyps
			if len(c.Uses) > 0 && len(fx.hypLabels) == len(all) {
				var sel []Term
				for i, h := range all {
					for _, u := range c.Uses {
						if fx.hypLabels[i] == u {
							sel = append(sel, h)
						}
					}
				}
				fx.hyps = sel
			}
			fx.oblige("inv-pres", fmt.Sprintf("%s/inv-pres/loop%d/%s", name, li.ordinal, c.Label), c.Text, st, t, b.Instrs[0].Pos(), fr.props())
			fx.hyps = all
		})
	}
	fr.visitedMode = 0
	})
	fx.hyps = nil
	fx.hypLabels = nil
	fx.headMarkForHyps = 0
	// vacuity guard: this back edge is reachable under everything assumed so far
	if fr.top && fx.quiet == 0 && st.guard != "false" && (len(invs) > 0 || (fr.fc != nil && len(fr.fc.Steps[li.ordinal]) > 0)) {
		ob := &Obligation{Name: fmt.Sprintf("%s/cover/loop%d/back-edge", name, li.ordinal), Kind: "cover", Func: fx.topName(), Text: "the end of the loop body is reachable", Props: fr.props(), MustSat: true}
		fx.obNames[ob.Name]++
		if n := fx.obNames[ob.Name]; n > 1 {
			ob.Name = fmt.Sprintf("%s#%d", ob.Name, n)
		}
		ob.SMT = fx.s.render(fx.s.mark(), st.guard, "false", "vacuity guard (must be sat) "+ob.Name, true)
		fx.obs = append(fx.obs, ob)
	}

	if decr != nil {
		sv := fr.evalSpec(decr.E, st, li)
		fx.oblige("variant", fmt.Sprintf("%s/variant/loop%d", name, li.ordinal), decr.Text, st,
			fmt.Sprintf("(and (<= 0 %s) (< %s %s))", li.variant, sv.v.t, li.variant), b.Instrs[0].Pos(), []string{"C05"})
	} else if bname, ok := fr.boundedLoop(li); ok {
		fx.bounded[fmt.Sprintf("termination of loop %d of %s: bounded stand-in %q", li.ordinal, fr.obName(), bname)] = true
	} else if li.rangeIx == nil && !fr.loopIsRange(li) && fr.top {
		// a non-range loop without a variant: termination not shown
		fx.oblige("variant", fmt.Sprintf("%s/variant/loop%d", name, li.ordinal), "missing decreases clause", st, "false", b.Instrs[0].Pos(), []string{"C05"})
	}
	for phi, v := range saved {
		fr.env[phi] = v
	}
}

func (fr *Frame) boundedLoop(li *loopInfo) (string, bool) {
	if fr.fc == nil {
		return "", false
	}
	n, ok := fr.fc.Bounded[li.ordinal]
	return n, ok
}

func (fr *Frame) loopIsRange(li *loopInfo) bool {
	for _, ins := range li.header.Instrs {
		if _, ok := ins.(*ssa.Next); ok {
			return true
		}
	}
	return false
}

func (fr *Frame) obName() string {
	n := fr.fx.eng.relName(fr.fn)
	if !fr.top {
		return fr.fx.topName() + "/inl:" + n
	}
	return n
}

func (fr *Frame) props() []string {
	if fr.fx.fc != nil {
		return fr.fx.fc.Props
	}
	return nil
}

func (fx *FnCtx) ghostSort(k string) string {
	return ghostSortOf(k)
}

func (fx *FnCtx) havocVal(prefix string, t types.Type, st *State) Val {
	t = types.Unalias(t)
	switch u := t.Underlying().(type) {
	case *types.Tuple:
		var out []Val
		for i := 0; i < u.Len(); i++ {
			out = append(out, fx.havocVal(fmt.Sprintf("%s_%d", prefix, i), u.At(i).Type(), st))
		}
		return Val{tup: out}
	case *types.Signature:
		unsupported("havoc of function value")
	}
	c := fx.s.freshConst(prefix, fx.tm.sortOf(t))
	fx.assumeOld(st, t, c)
	return Val{t: c}
}

// ---------------------------------------------------------------------------------------------
// blocks and instructions

func (fr *Frame) execBlock(b *ssa.BasicBlock, st *State) {
	fx := fr.fx
	for _, ins := range b.Instrs {
		if _, ok := ins.(*ssa.Phi); ok {
			continue
		}
		if fr.top && fx.fc != nil && fx.fc.PrefixOnly {
			// prefix-only: a construct outside the subset cuts the path here (everything after it on this path is
			// not verified and is reported as such); the other paths are still verified
			func() {
				defer func() {
					if r := recover(); r != nil {
						ue, ok := r.(*UnsupportedError)
						if !ok || ue.msg != fx.fc.PrefixCut {
							panic(r)
						}
						pos := fx.eng.prog.Fset.Position(ins.Pos())
						fx.trusted[fmt.Sprintf("%s: the path through %s:%d is cut at a construct outside the subset (%s); the code after it on that path, and every postcondition, is NOT verified", fx.topName(), filepath.Base(pos.Filename), pos.Line, ue.msg)] = true
						fx.cut = true
						st.guard = "false"
					}
				}()
				fr.execInstr(ins, st)
			}()
		} else {
			fr.execInstr(ins, st)
		}
		if st.guard == "false" {
			break
		}
	}
	fr.exit[b] = st
	// back edges
	for _, s := range b.Succs {
		if fx.cut && st.guard == "false" {
			break
		}
		if isBackEdge(b, s) {
			g, _ := fr.edgeGuard(b, s)
			bs := st.clone()
			bs.guard = fx.s.define("g", "Bool", g)
			fr.backEdge(b, fr.loops[s], bs)
		}
	}
}

func (fr *Frame) bind(v ssa.Value, x Val) {
	if x.t != "" {
		x.t = fr.fx.s.define(v.Name(), fr.fx.tm.sortOf(v.Type()), x.t)
	}
	fr.env[v] = x
}

func (fr *Frame) safety(kind string, ins ssa.Instruction, desc string, st *State, goal Term) {
	fx := fr.fx
	name := fmt.Sprintf("%s/%s/%s", fr.obName(), kind, desc)
	fx.oblige(kind, name, ins.String(), st, goal, ins.Pos(), []string{"C05"})
}

func (fr *Frame) nilCheck(ins ssa.Instruction, p ssa.Value, pv Val, st *State) {
	if pv.loc != nil {
		return // interior pointers derive from checked bases
	}
	switch p.(type) {
	case *ssa.Alloc, *ssa.Global, *ssa.FieldAddr, *ssa.IndexAddr:
		return
	}
	fr.safety("safe:nil", ins, fr.describe(p), st, not(eq(pv.t, "nilref")))
}

// describe an SSA value by its source-level shape (stable under reformatting)
func (fr *Frame) describe(v ssa.Value) string {
	return fr.describeN(v, 0)
}

func (fr *Frame) describeN(v ssa.Value, d int) string {
	if d > 6 {
		return "…"
	}
	switch x := v.(type) {
	case *ssa.Parameter:
		return x.Name()
	case *ssa.FreeVar:
		return x.Name()
	case *ssa.Const:
		if x.Value == nil {
			return "nil"
		}
		return x.Value.ExactString()
	case *ssa.Global:
		return x.Name()
	case *ssa.Alloc:
		if x.Comment != "" {
			return x.Comment
		}
		return "new"
	case *ssa.FieldAddr:
		st := x.X.Type().Underlying().(*types.Pointer).Elem().Underlying().(*types.Struct)
		return fr.describeN(x.X, d+1) + "." + st.Field(x.Field).Name()
	case *ssa.Field:
		st := x.X.Type().Underlying().(*types.Struct)
		return fr.describeN(x.X, d+1) + "." + st.Field(x.Field).Name()
	case *ssa.IndexAddr:
		return fr.describeN(x.X, d+1) + "[" + fr.describeN(x.Index, d+1) + "]"
	case *ssa.Index:
		return fr.describeN(x.X, d+1) + "[" + fr.describeN(x.Index, d+1) + "]"
	case *ssa.UnOp:
		if x.Op == token.MUL {
			// load: describe the address without the star for Alloc'd locals
			if a, ok := x.X.(*ssa.Alloc); ok {
				return fr.describeN(a, d+1)
			}
			if fa, ok := x.X.(*ssa.FieldAddr); ok {
				return fr.describeN(fa, d+1)
			}
			if ia, ok := x.X.(*ssa.IndexAddr); ok {
				return fr.describeN(ia, d+1)
			}
			return "*" + fr.describeN(x.X, d+1)
		}
		return x.Op.String() + fr.describeN(x.X, d+1)
	case *ssa.Phi:
		if x.Comment != "" {
			return x.Comment
		}
		return "phi"
	case *ssa.Call:
		if f := x.Call.StaticCallee(); f != nil {
			return f.Name() + "()"
		}
		if x.Call.IsInvoke() {
			return fr.describeN(x.Call.Value, d+1) + "." + x.Call.Method.Name() + "()"
		}
		return "call()"
	case *ssa.Extract:
		return fr.describeN(x.Tuple, d+1) + "#" + fmt.Sprint(x.Index)
	case *ssa.Lookup:
		return fr.describeN(x.X, d+1) + "[" + fr.describeN(x.Index, d+1) + "]"
	case *ssa.BinOp:
		return fr.describeN(x.X, d+1) + x.Op.String() + fr.describeN(x.Y, d+1)
	case *ssa.Slice:
		return fr.describeN(x.X, d+1) + "[:]"
	case *ssa.Next:
		return "next"
	case *ssa.TypeAssert:
		return fr.describeN(x.X, d+1) + ".(T)"
	case *ssa.MakeInterface:
		return fr.describeN(x.X, d+1)
	case *ssa.ChangeType:
		return fr.describeN(x.X, d+1)
	case *ssa.Convert:
		return fr.describeN(x.X, d+1)
	}
	return v.Name()
}

func (fr *Frame) execInstr(ins ssa.Instruction, st *State) {
	fx := fr.fx
	tm := fx.tm
	switch x := ins.(type) {
	case *ssa.DebugRef:
		if obj := x.Object(); obj != nil {
			if x.IsAddr {
				fr.addrNames[obj.Name()] = x.X
			} else {
				fr.names[obj.Name()] = x.X
			}
		}
	case *ssa.Alloc:
		elem := x.Type().Underlying().(*types.Pointer).Elem()
		ref := fx.allocRef(st, "1")
		refName := fx.s.define(x.Name(), "Ref", ref)
		if arr, ok := elem.Underlying().(*types.Array); ok {
			key, srt := tm.heapKey(arr.Elem())
			h := fx.heap(st, key, srt)
			if arr.Len() > 64 {
				unsupported("large array allocation")
			}
			for i := int64(0); i < arr.Len(); i++ {
				h = fmt.Sprintf("(store %s (mkref (obj %s) %d) %s)", h, refName, i, tm.zero(arr.Elem()))
			}
			fx.setHeap(st, key, srt, h)
		} else {
			fx.store(st, &Loc{base: refName, cell: elem}, tm.zero(elem))
			if sty, ok := elem.Underlying().(*types.Struct); ok {
				for i := 0; i < sty.NumFields(); i++ {
					if isNamed(sty.Field(i).Type(), "bytes", "Buffer") {
						st.ghost["hashP"] = "false" // a new buffer is empty
					}
				}
			}
		}
		fr.env[x] = Val{t: refName}
		if x.Comment != "" {
			fr.addrNames[x.Comment] = x
		}
	case *ssa.Store:
		pv := fr.val(x.Addr)
		fr.nilCheck(ins, x.Addr, pv, st)
		elem := x.Addr.Type().Underlying().(*types.Pointer).Elem()
		v := fr.val(x.Val)
		l := fx.ptrLoc(pv, elem)
		fx.frameCheck(fr, ins, st, l, fr.describe(x.Addr))
		if _, isIA := x.Addr.(*ssa.IndexAddr); isIA && fx.eng.isProtoMsgPtr(elem) && v.t != "" {
			fr.safety("safe:protoelem", ins, fr.describe(x.Addr), st, not(eq(v.t, "nilref")))
		}
		fx.store(st, l, fx.encode(v, x.Val.Type()))
	case *ssa.UnOp:
		fr.execUnOp(x, st)
	case *ssa.BinOp:
		fr.bind(x, Val{t: fr.binop(x, st)})
	case *ssa.FieldAddr:
		pv := fr.val(x.X)
		fr.nilCheck(ins, x.X, pv, st)
		elem := x.X.Type().Underlying().(*types.Pointer).Elem()
		l := fx.ptrLoc(pv, elem)
		nl := &Loc{base: l.base, cell: l.cell, path: append(append([]PathElem{}, l.path...), PathElem{field: x.Field})}
		fr.env[x] = Val{loc: nl}
	case *ssa.Field:
		sv := fr.val(x.X)
		si := tm.structInfo(x.X.Type())
		fr.bind(x, Val{t: "(" + si.Fields[x.Field].Sel + " " + sv.t + ")"})
	case *ssa.IndexAddr:
		fr.execIndexAddr(x, st)
	case *ssa.Index:
		xv := fr.val(x.X)
		iv := fr.val(x.Index)
		switch xt := x.X.Type().Underlying().(type) {
		case *types.Array:
			fr.safety("safe:index", ins, fr.describe(x), st, fmt.Sprintf("(and (<= 0 %s) (< %s %d))", iv.t, iv.t, xt.Len()))
			fr.bind(x, Val{t: "(select " + xv.t + " " + iv.t + ")"})
		case *types.Basic: // string
			fr.safety("safe:index", ins, fr.describe(x), st, fmt.Sprintf("(and (<= 0 %s) (< %s (str.len %s)))", iv.t, iv.t, xv.t))
			fr.bind(x, Val{t: fmt.Sprintf("(str.to_code (str.at %s %s))", xv.t, iv.t)})
		default:
			unsupported("Index on %s", x.X.Type())
		}
	case *ssa.Slice:
		fr.execSlice(x, st)
	case *ssa.Lookup:
		fr.execLookup(x, st)
	case *ssa.MapUpdate:
		mv := fr.val(x.Map)
		mt := x.Map.Type().Underlying().(*types.Map)
		mi := tm.mapInfo(mt)
		fr.safety("safe:nilmap", ins, fr.describe(x.Map), st, not(eq(mv.t, "nilref")))
		fx.frameCheckMap(fr, ins, st, mv.t, mi, fr.describe(x.Map))
		h := fx.heap(st, mi.HeapKey, mi.Sort)
		cell := "(select " + h + " " + mv.t + ")"
		k := fx.encode(fr.val(x.Key), x.Key.Type())
		v := fx.encode(fr.val(x.Value), x.Value.Type())
		ncell := fmt.Sprintf("(%s (store (%s %s) %s true) (store (%s %s) %s %s))", mi.Ctor, mi.Dom, cell, k, mi.Val, cell, k, v)
		fx.setHeap(st, mi.HeapKey, mi.Sort, "(store "+h+" "+mv.t+" "+ncell+")")
	case *ssa.MakeMap:
		mt := x.Type().Underlying().(*types.Map)
		mi := tm.mapInfo(mt)
		ref := fx.s.define(x.Name(), "Ref", fx.allocRef(st, "1"))
		h := fx.heap(st, mi.HeapKey, mi.Sort)
		mv0 := "mapval0_" + sanitize(mi.Sort)
		fx.s.global(mv0, fmt.Sprintf("(declare-fun %s () (Array %s %s))", mv0, mi.KeySort, mi.ValSort))
		empty := fmt.Sprintf("(%s ((as const (Array %s Bool)) false) %s)", mi.Ctor, mi.KeySort, mv0)
		fx.setHeap(st, mi.HeapKey, mi.Sort, "(store "+h+" "+ref+" "+empty+")")
		fr.env[x] = Val{t: ref}
	case *ssa.MakeSlice:
		lenv := fr.val(x.Len).t
		capv := fr.val(x.Cap).t
		fr.safety("safe:makeslice", ins, fr.describe(x), st, fmt.Sprintf("(and (<= 0 %s) (<= %s %s))", lenv, lenv, capv))
		if fx.eng.isProtoMsgPtr(x.Type().Underlying().(*types.Slice).Elem()) {
			fr.safety("safe:protoelem", ins, "make", st, eq(lenv, "0"))
		}
		ref := fx.allocRef(st, capv)
		et := x.Type().Underlying().(*types.Slice).Elem()
		key, srt := tm.heapKey(et)
		h := fx.heap(st, key, srt)
		// all cells of the fresh object are zero
		nh := fx.s.freshConst("Hmk", "(Array Ref "+srt+")")
		o := "(obj " + ref + ")"
		fx.s.assume("true", fmt.Sprintf("(forall ((r Ref)) (! (= (select %s r) (ite (= (obj r) %s) %s (select %s r))) :pattern ((select %s r))))", nh, o, tm.zero(et), h, nh))
		st.heaps[key] = nh
		fr.bind(x, Val{t: fmt.Sprintf("(mkslice %s 0 %s %s)", o, lenv, capv)})
	case *ssa.MakeClosure:
		var bs []Val
		for _, b := range x.Bindings {
			bs = append(bs, fr.val(b))
		}
		fr.env[x] = Val{clo: &Closure{fn: x.Fn.(*ssa.Function), bindings: bs}}
	case *ssa.MakeInterface:
		fr.bind(x, Val{t: fx.box(fr.val(x.X), x.X.Type())})
	case *ssa.ChangeInterface:
		fr.env[x] = fr.val(x.X)
	case *ssa.ChangeType:
		v := fr.val(x.X)
		fr.env[x] = v
	case *ssa.Convert:
		fr.execConvert(x, st)
	case *ssa.TypeAssert:
		fr.execTypeAssert(x, st)
	case *ssa.Extract:
		tv := fr.val(x.Tuple)
		if tv.tup == nil {
			unsupported("extract from non-tuple")
		}
		fr.env[x] = tv.tup[x.Index]
	case *ssa.Call:
		res := fr.execCall(x, &x.Call, st)
		if x.Type() != nil {
			if tup, ok := x.Type().(*types.Tuple); ok {
				if tup.Len() > 0 {
					fr.env[x] = Val{tup: res}
				}
			} else if len(res) == 1 {
				if res[0].t != "" {
					fr.bind(x, res[0])
				} else {
					fr.env[x] = res[0]
				}
			}
		}
	case *ssa.Range:
		xv := fr.val(x.X)
		_, isMap := x.X.Type().Underlying().(*types.Map)
		fr.env[x] = Val{it: &Iter{isMap: isMap, x: xv, typ: x.X.Type()}}
	case *ssa.Next:
		fr.execNext(x, st)
	case *ssa.If:
		c := fr.val(x.Cond).t
		b := x.Block()
		if b.Succs[0] == b.Succs[1] {
			fr.edge[[2]int{b.Index, b.Succs[0].Index}] = "true"
		} else {
			fr.edge[[2]int{b.Index, b.Succs[0].Index}] = c
			fr.edge[[2]int{b.Index, b.Succs[1].Index}] = not(c)
		}
	case *ssa.Jump:
	case *ssa.Return:
		var vals []Val
		for _, r := range x.Results {
			vals = append(vals, fr.val(r))
		}
		rs := st.clone()
		fr.rets = append(fr.rets, retInfo{guard: st.guard, vals: vals, st: rs})
		fr.lastRet = x
	case *ssa.Panic:
		fr.safety("safe:panic", ins, "panic", st, "false")
		st.guard = "false"
	case *ssa.RunDefers:
	default:
		unsupported("instruction %T (%s)", ins, ins)
	}
}

// encode a Val as a first-class SMT term (for storing / passing)
func (fx *FnCtx) encode(v Val, t types.Type) Term {
	if v.t != "" {
		return v.t
	}
	if v.loc != nil && len(v.loc.path) == 0 {
		return v.loc.base
	}
	if v.clo != nil {
		// function values are opaque when stored
		name := "fn_" + sanitize(v.clo.fn.String())
		fx.s.global(name, fmt.Sprintf("(declare-fun %s () Opaque)", name))
		if len(v.clo.bindings) > 0 {
			return fx.s.freshConst("closure", "Opaque")
		}
		return name
	}
	unsupported("cannot encode interior pointer / iterator as a first-class value (%s)", t)
	return ""
}

func (fr *Frame) execUnOp(x *ssa.UnOp, st *State) {
	fx := fr.fx
	switch x.Op {
	case token.MUL:
		if g, ok := x.X.(*ssa.Global); ok && g.Pkg.Pkg.Path() == "time" && g.Name() == "UTC" {
			fx.trusted["time.UTC is a non-nil *Location that nobody reassigns"] = true
			fr.env[x] = Val{t: "time_UTC"}
			return
		}
		if g, ok := x.X.(*ssa.Global); ok {
			if ref, ok := fx.globalTable(g, st); ok {
				fr.env[x] = Val{t: ref}
				return
			}
		}
		pv := fr.val(x.X)
		fr.nilCheck(x, x.X, pv, st)
		elem := x.X.Type().Underlying().(*types.Pointer).Elem()
		l := fx.ptrLoc(pv, elem)
		if _, isSig := elem.Underlying().(*types.Signature); isSig {
			unsupported("load of function value from memory")
		}
		v := fx.load(st, l)
		v = fx.s.define(x.Name(), fx.tm.sortOf(elem), v)
		fx.assumeOld(st, elem, v)
		if ia, ok := x.X.(*ssa.IndexAddr); ok && fx.eng.isProtoMsgPtr(elem) {
			if _, isSlice := ia.X.Type().Underlying().(*types.Slice); isSlice {
				// type invariant of generated messages: elements of repeated message fields are never nil
				// (established by proto.Unmarshal, preserved by every store of the repository: safe:protoelem)
				fx.assump["type invariant: elements of repeated protobuf message fields are non-nil (assumed of proto.Unmarshal, checked at every store of the repository)"] = true
				fx.s.assume(st.guard, not(eq(v, "nilref")))
			}
		}
		fr.env[x] = Val{t: v}
	case token.NOT:
		fr.bind(x, Val{t: not(fr.val(x.X).t)})
	case token.SUB:
		v := fr.val(x.X).t
		if isFloat(x.Type()) {
			unsupported("float negation")
		}
		fr.bind(x, Val{t: fx.wrap(x.Type(), "(- "+v+")")})
	default:
		unsupported("unary op %s", x.Op)
	}
}

func isFloat(t types.Type) bool {
	b, ok := types.Unalias(t).Underlying().(*types.Basic)
	return ok && b.Info()&types.IsFloat != 0
}

func isString(t types.Type) bool {
	b, ok := types.Unalias(t).Underlying().(*types.Basic)
	return ok && b.Info()&types.IsString != 0
}

func isInteger(t types.Type) bool {
	b, ok := types.Unalias(t).Underlying().(*types.Basic)
	return ok && b.Info()&types.IsInteger != 0
}

func isUnsigned(t types.Type) bool {
	b, ok := types.Unalias(t).Underlying().(*types.Basic)
	return ok && b.Info()&types.IsUnsigned != 0
}

// wrap models Go's silent wrap-around for sized integer arithmetic. Following DESIGN.md §2.4, int and int64
// (and uint64) arithmetic is mathematical (assumption "no 64-bit overflow"); narrower types wrap exactly.
func (fx *FnCtx) wrap(t types.Type, v Term) Term {
	b, ok := types.Unalias(t).Underlying().(*types.Basic)
	if !ok {
		return v
	}
	var bits int
	switch b.Kind() {
	case types.Int8, types.Uint8:
		bits = 8
	case types.Int16, types.Uint16:
		bits = 16
	case types.Int32, types.Uint32:
		bits = 32
	default:
		fx.assump["int/int64/uint64 arithmetic is mathematical (no wrap-around modelled)"] = true
		return v
	}
	mod := new2pow(bits)
	if b.Info()&types.IsUnsigned != 0 {
		return fmt.Sprintf("(mod %s %s)", v, mod)
	}
	half := new2pow(bits - 1)
	return fmt.Sprintf("(- (mod (+ %s %s) %s) %s)", v, half, mod, half)
}

func new2pow(n int) string {
	v := uint64(1) << uint(n)
	return fmt.Sprintf("%d", v)
}

func (fr *Frame) binop(x *ssa.BinOp, st *State) Term {
	fx := fr.fx
	a := fr.val(x.X)
	b := fr.val(x.Y)
	xt := x.X.Type()
	switch x.Op {
	case token.EQL, token.NEQ:
		var e Term
		if a.loc != nil || b.loc != nil {
			unsupported("comparison of interior pointers")
		}
		if a.clo != nil || b.clo != nil {
			// func == nil
			if a.clo != nil && b.t != "" {
				e = "false"
			} else if b.clo != nil && a.t != "" {
				e = "false"
			} else {
				unsupported("comparison of functions")
			}
		} else if _, isSig := xt.Underlying().(*types.Signature); isSig {
			unsupported("comparison of function values")
		} else {
			if isFloat(xt) {
				fx.assump["float == is modelled as bit identity (NaN, -0 ignored)"] = true
			}
			e = eq(a.t, b.t)
		}
		if x.Op == token.NEQ {
			return not(e)
		}
		return e
	case token.LSS, token.LEQ, token.GTR, token.GEQ:
		if isString(xt) {
			switch x.Op {
			case token.LSS:
				return "(str.< " + a.t + " " + b.t + ")"
			case token.LEQ:
				return "(str.<= " + a.t + " " + b.t + ")"
			case token.GTR:
				return "(str.< " + b.t + " " + a.t + ")"
			default:
				return "(str.<= " + b.t + " " + a.t + ")"
			}
		}
		if isFloat(xt) {
			unsupported("float comparison")
		}
		op := map[token.Token]string{token.LSS: "<", token.LEQ: "<=", token.GTR: ">", token.GEQ: ">="}[x.Op]
		return "(" + op + " " + a.t + " " + b.t + ")"
	case token.ADD:
		if isString(xt) {
			return "(str.++ " + a.t + " " + b.t + ")"
		}
		if isFloat(xt) {
			unsupported("float arithmetic")
		}
		return fx.wrap(x.Type(), "(+ "+a.t+" "+b.t+")")
	case token.SUB:
		if isFloat(xt) {
			unsupported("float arithmetic")
		}
		return fx.wrap(x.Type(), "(- "+a.t+" "+b.t+")")
	case token.MUL:
		if isFloat(xt) {
			unsupported("float arithmetic")
		}
		return fx.wrap(x.Type(), "(* "+a.t+" "+b.t+")")
	case token.QUO, token.REM:
		if isFloat(xt) {
			unsupported("float arithmetic")
		}
		fr.safety("safe:div", x, fr.describe(x), st, not(eq(b.t, "0")))
		// Go truncates toward zero; SMT div floors (for positive divisor). Build truncating versions.
		q := fmt.Sprintf("(ite (>= %s 0) (div %s %s) (- (div (- %s) %s)))", a.t, a.t, b.t, a.t, b.t)
		if x.Op == token.QUO {
			return fx.wrap(x.Type(), q)
		}
		return fmt.Sprintf("(- %s (* %s %s))", a.t, b.t, q)
	case token.LAND, token.LOR:
		unsupported("logical op in SSA")
	}
	unsupported("binary op %s", x.Op)
	return ""
}

func (fr *Frame) execIndexAddr(x *ssa.IndexAddr, st *State) {
	_ = fr.fx
	xv := fr.val(x.X)
	iv := fr.val(x.Index).t
	switch xt := x.X.Type().Underlying().(type) {
	case *types.Slice:
		fr.safety("safe:index", x, fr.describe(x), st, fmt.Sprintf("(and (<= 0 %s) (< %s (slen %s)))", iv, iv, xv.t))
		fr.bind(x, Val{t: fmt.Sprintf("(elemref %s %s)", xv.t, iv)})
	case *types.Pointer:
		arr := xt.Elem().Underlying().(*types.Array)
		fr.nilCheck(x, x.X, xv, st)
		fr.safety("safe:index", x, fr.describe(x), st, fmt.Sprintf("(and (<= 0 %s) (< %s %d))", iv, iv, arr.Len()))
		if xv.loc != nil {
			nl := &Loc{base: xv.loc.base, cell: xv.loc.cell, path: append(append([]PathElem{}, xv.loc.path...), PathElem{field: -1, idx: iv})}
			fr.env[x] = Val{loc: nl}
			return
		}
		fr.bind(x, Val{t: fmt.Sprintf("(mkref (obj %s) (+ (idx %s) %s))", xv.t, xv.t, iv)})
	default:
		unsupported("IndexAddr on %s", x.X.Type())
	}
}

func (fr *Frame) execSlice(x *ssa.Slice, st *State) {
	fx := fr.fx
	xv := fr.val(x.X)
	var lo, hi, max Term
	if x.Low != nil {
		lo = fr.val(x.Low).t
	} else {
		lo = "0"
	}
	switch xt := x.X.Type().Underlying().(type) {
	case *types.Slice:
		if x.High != nil {
			hi = fr.val(x.High).t
		} else {
			hi = "(slen " + xv.t + ")"
		}
		capT := "(scap " + xv.t + ")"
		if x.Max != nil {
			max = fr.val(x.Max).t
			fr.safety("safe:slice", x, fr.describe(x), st, fmt.Sprintf("(and (<= 0 %s) (<= %s %s) (<= %s %s) (<= %s %s))", lo, lo, hi, hi, max, max, capT))
		} else {
			max = capT
			fr.safety("safe:slice", x, fr.describe(x), st, fmt.Sprintf("(and (<= 0 %s) (<= %s %s) (<= %s %s))", lo, lo, hi, hi, capT))
		}
		fr.bind(x, Val{t: fmt.Sprintf("(mkslice (sobj %s) (+ (soff %s) %s) (- %s %s) (- %s %s))", xv.t, xv.t, lo, hi, lo, max, lo)})
	case *types.Basic: // string
		if x.High != nil {
			hi = fr.val(x.High).t
		} else {
			hi = "(str.len " + xv.t + ")"
		}
		fr.safety("safe:slice", x, fr.describe(x), st, fmt.Sprintf("(and (<= 0 %s) (<= %s %s) (<= %s (str.len %s)))", lo, lo, hi, hi, xv.t))
		fr.bind(x, Val{t: fmt.Sprintf("(str.substr %s %s (- %s %s))", xv.t, lo, hi, lo)})
	case *types.Pointer:
		arr := xt.Elem().Underlying().(*types.Array)
		fr.nilCheck(x, x.X, xv, st)
		if xv.loc != nil {
			unsupported("slice of interior array")
		}
		if x.High != nil {
			hi = fr.val(x.High).t
		} else {
			hi = fmt.Sprint(arr.Len())
		}
		fr.safety("safe:slice", x, fr.describe(x), st, fmt.Sprintf("(and (<= 0 %s) (<= %s %s) (<= %s %d))", lo, lo, hi, hi, arr.Len()))
		fr.bind(x, Val{t: fmt.Sprintf("(mkslice (obj %s) (+ (idx %s) %s) (- %s %s) (- %d %s))", xv.t, xv.t, lo, hi, lo, arr.Len(), lo)})
	default:
		_ = fx
		unsupported("Slice on %s", x.X.Type())
	}
}

func (fr *Frame) execLookup(x *ssa.Lookup, st *State) {
	fx := fr.fx
	xv := fr.val(x.X)
	switch xt := x.X.Type().Underlying().(type) {
	case *types.Map:
		mi := fx.tm.mapInfo(xt)
		h := fx.heap(st, mi.HeapKey, mi.Sort)
		k := fx.encode(fr.val(x.Index), x.Index.Type())
		cell := "(select " + h + " " + xv.t + ")"
		present := fx.s.define("present", "Bool", fmt.Sprintf("(and (not (= %s nilref)) (select (%s %s) %s))", xv.t, mi.Dom, cell, k))
		val := fx.s.define(x.Name(), mi.ValSort, ite(present, fmt.Sprintf("(select (%s %s) %s)", mi.Val, cell, k), fx.tm.zero(xt.Elem())))
		fx.assumeOld(st, xt.Elem(), val)
		if x.CommaOk {
			fr.env[x] = Val{tup: []Val{{t: val}, {t: present}}}
		} else {
			fr.env[x] = Val{t: val}
		}
	case *types.Basic:
		iv := fr.val(x.Index).t
		fr.safety("safe:index", x, fr.describe(x), st, fmt.Sprintf("(and (<= 0 %s) (< %s (str.len %s)))", iv, iv, xv.t))
		fr.bind(x, Val{t: fmt.Sprintf("(str.to_code (str.at %s %s))", xv.t, iv)})
	default:
		unsupported("Lookup on %s", x.X.Type())
	}
}

func (fr *Frame) execNext(x *ssa.Next, st *State) {
	fx := fr.fx
	itv := fr.val(x.Iter)
	it := itv.it
	if it == nil {
		unsupported("next on unknown iterator")
	}
	if it.isMap {
		mt := it.typ.Underlying().(*types.Map)
		mi := fx.tm.mapInfo(mt)
		h := fx.heap(st, mi.HeapKey, mi.Sort)
		cell := "(select " + h + " " + it.x.t + ")"
		ok := fx.s.freshConst("ok", "Bool")
		k := fx.s.freshConst("key", mi.KeySort)
		fx.assumeOld(st, mt.Key(), k)
		var visited Term
		if li := fr.loops[x.Block()]; li != nil && li.visited != "" {
			visited = li.visited
			li.visitedNext = fx.s.define("visited", li.visitedSort, fmt.Sprintf("(store %s %s true)", visited, k))
		} else {
			visited = fx.s.freshConst("visited", "(Array "+mi.KeySort+" Bool)")
		}
		it.visited = visited
		fx.s.assume(st.guard, fmt.Sprintf("(=> %s (and (not (= %s nilref)) (select (%s %s) %s) (not (select %s %s))))", ok, it.x.t, mi.Dom, cell, k, visited, k))
		// when the iteration ends every key has been visited
		fx.s.assume(st.guard, fmt.Sprintf("(=> (not %s) (forall ((vk %s)) (! (=> (and (not (= %s nilref)) (select (%s %s) vk)) (select %s vk)) :pattern ((select %s vk)))))", ok, mi.KeySort, it.x.t, mi.Dom, cell, visited, visited))
		v := fx.s.define("mapval", mi.ValSort, fmt.Sprintf("(select (%s %s) %s)", mi.Val, cell, k))
		fx.assumeOld(st, mt.Elem(), v)
		fr.env[x] = Val{tup: []Val{{t: ok}, {t: k}, {t: v}}}
		return
	}
	// string iteration: position is arbitrary but within bounds; ASCII bytes decode to themselves
	s := it.x.t
	ok := fx.s.freshConst("ok", "Bool")
	pos := fx.s.freshConst("pos", "Int")
	r := fx.s.freshConst("rune", "Int")
	fx.s.assume(st.guard, fmt.Sprintf("(=> %s (and (<= 0 %s) (< %s (str.len %s)) (<= 0 %s) (<= %s 1114111) (=> (< (str.to_code (str.at %s %s)) 128) (= %s (str.to_code (str.at %s %s)))) (=> (>= (str.to_code (str.at %s %s)) 128) (>= %s 128))))",
		ok, pos, pos, s, r, r, s, pos, r, s, pos, s, pos, r))
	it.visited = pos
	fr.env[x] = Val{tup: []Val{{t: ok}, {t: pos}, {t: r}}}
}

func (fr *Frame) execConvert(x *ssa.Convert, st *State) {
	fx := fr.fx
	v := fr.val(x.X)
	from := x.X.Type()
	to := x.Type()
	switch {
	case isInteger(from) && isInteger(to):
		fb := types.Unalias(from).Underlying().(*types.Basic)
		tb := types.Unalias(to).Underlying().(*types.Basic)
		if convFits(fb.Kind(), tb.Kind()) {
			fr.env[x] = v
			return
		}
		// exact modular conversion
		lo, hi := intBounds(tb.Kind())
		var bits int
		switch tb.Kind() {
		case types.Int8, types.Uint8:
			bits = 8
		case types.Int16, types.Uint16:
			bits = 16
		case types.Int32, types.Uint32:
			bits = 32
		default:
			bits = 64
		}
		var t Term
		if bits == 64 {
			m := "18446744073709551616"
			if tb.Info()&types.IsUnsigned != 0 {
				t = fmt.Sprintf("(mod %s %s)", v.t, m)
			} else {
				t = fmt.Sprintf("(- (mod (+ %s 9223372036854775808) %s) 9223372036854775808)", v.t, m)
			}
		} else {
			m := new2pow(bits)
			if tb.Info()&types.IsUnsigned != 0 {
				t = fmt.Sprintf("(mod %s %s)", v.t, m)
			} else {
				h := new2pow(bits - 1)
				t = fmt.Sprintf("(- (mod (+ %s %s) %s) %s)", v.t, h, m, h)
			}
		}
		_ = lo
		_ = hi
		fr.bind(x, Val{t: t})
	case isString(from) && isString(to):
		fr.env[x] = v
	case isInteger(from) && isString(to):
		// string(rune)
		fx.assump["string(rune) modelled for ASCII only"] = true
		fr.bind(x, Val{t: fmt.Sprintf("(str.from_code %s)", v.t)})
	case isString(from) && isByteSlice(to):
		// []byte(s): fresh byte slice whose abstract content is s
		ref := fx.allocRef(st, "0")
		sl := fx.s.define(x.Name(), "Slice", fmt.Sprintf("(mkslice (obj %s) 0 (str.len %s) (str.len %s))", ref, v.t, v.t))
		fx.s.global("bytes_of", "(declare-fun bytes_of (Int) String)")
		fx.s.assume("true", fmt.Sprintf("(= (bytes_of (sobj %s)) %s)", sl, v.t))
		fr.env[x] = Val{t: sl}
	case isByteSlice(from) && isString(to):
		fx.s.global("bytes_of", "(declare-fun bytes_of (Int) String)")
		fr.bind(x, Val{t: fmt.Sprintf("(bytes_of (sobj %s))", v.t)})
	case isFloat(from) || isFloat(to):
		name := fmt.Sprintf("conv_%s_%s", sanitize(typeKey(from)), sanitize(typeKey(to)))
		fx.s.global(name, fmt.Sprintf("(declare-fun %s (%s) %s)", name, fx.tm.sortOf(from), fx.tm.sortOf(to)))
		fr.bind(x, Val{t: "(" + name + " " + v.t + ")"})
	default:
		if _, ok := from.Underlying().(*types.Pointer); ok {
			unsupported("unsafe pointer conversion")
		}
		unsupported("conversion %s -> %s", from, to)
	}
}

func isByteSlice(t types.Type) bool {
	s, ok := types.Unalias(t).Underlying().(*types.Slice)
	if !ok {
		return false
	}
	b, ok := s.Elem().Underlying().(*types.Basic)
	return ok && b.Kind() == types.Uint8
}

func convFits(from, to types.BasicKind) bool {
	rank := func(k types.BasicKind) (bits int, unsigned bool) {
		switch k {
		case types.Int8:
			return 8, false
		case types.Int16:
			return 16, false
		case types.Int32, types.UntypedRune:
			return 32, false
		case types.Int, types.Int64, types.UntypedInt:
			return 64, false
		case types.Uint8:
			return 8, true
		case types.Uint16:
			return 16, true
		case types.Uint32:
			return 32, true
		case types.Uint, types.Uint64, types.Uintptr:
			return 64, true
		}
		return 64, false
	}
	fb, fu := rank(from)
	tb, tu := rank(to)
	if fu == tu {
		return fb <= tb
	}
	if fu && !tu {
		return fb < tb
	}
	return false
}

// ---------------------------------------------------------------------------------------------
// interfaces

func (fx *FnCtx) box(v Val, t types.Type) Term {
	if _, ok := t.Underlying().(*types.Interface); ok {
		return v.t
	}
	tag := fx.tm.typeTag(t)
	srt := fx.tm.sortOf(t)
	bx := fmt.Sprintf("box_%d", tag)
	ub := fmt.Sprintf("unbox_%d", tag)
	fx.s.global(bx, fmt.Sprintf("(declare-fun %s (%s) Int)", bx, srt))
	fx.s.global(ub, fmt.Sprintf("(declare-fun %s (Int) %s)", ub, srt))
	fx.s.global(bx+"!ax", fmt.Sprintf("(assert (forall ((x %s)) (! (= (%s (%s x)) x) :pattern ((%s x)))))", srt, ub, bx, bx))
	if b, ok := types.Unalias(t).Underlying().(*types.Basic); ok {
		fixed := false
		switch b.Kind() {
		case types.Bool, types.Int8, types.Int16, types.Int32, types.Int64, types.Uint8, types.Uint16, types.Uint32, types.Uint64, types.Float32, types.Float64:
			fixed = true
		}
		fx.s.global("fixedsize", "(declare-fun fixedsize (Int) Bool)")
		if fixed {
			fx.s.global(fmt.Sprintf("fixedsize!%d!ax", tag), fmt.Sprintf("(assert (fixedsize %d))", tag))
		} else {
			fx.s.global(fmt.Sprintf("fixedsize!%d!ax", tag), fmt.Sprintf("(assert (not (fixedsize %d)))", tag))
		}
	}
	var enc Term
	if v.loc != nil && len(v.loc.path) > 0 {
		// an interior pointer converted to an interface (e.g. &h.b as io.Writer): opaque handle; only externals
		// with a ghost model may use it
		fx.s.global("fieldptr", "(declare-fun fieldptr (Ref Int) Ref)")
		enc = fmt.Sprintf("(fieldptr %s %d)", v.loc.base, len(v.loc.path)*1000+v.loc.path[0].field)
	} else {
		enc = fx.encode(v, t)
	}
	return fmt.Sprintf("(mkiface %d (%s %s))", tag, bx, enc)
}

func (fx *FnCtx) unbox(iv Term, t types.Type) Term {
	tag := fx.tm.typeTag(t)
	srt := fx.tm.sortOf(t)
	bx := fmt.Sprintf("box_%d", tag)
	ub := fmt.Sprintf("unbox_%d", tag)
	fx.s.global(bx, fmt.Sprintf("(declare-fun %s (%s) Int)", bx, srt))
	fx.s.global(ub, fmt.Sprintf("(declare-fun %s (Int) %s)", ub, srt))
	fx.s.global(bx+"!ax", fmt.Sprintf("(assert (forall ((x %s)) (! (= (%s (%s x)) x) :pattern ((%s x)))))", srt, ub, bx, bx))
	return fmt.Sprintf("(%s (ival %s))", ub, iv)
}

func (fr *Frame) execTypeAssert(x *ssa.TypeAssert, st *State) {
	fx := fr.fx
	iv := fr.val(x.X).t
	if ai, ok := x.AssertedType.Underlying().(*types.Interface); ok {
		// assertion to an interface the static type already satisfies: a non-nil check
		if !x.CommaOk && types.Implements(x.X.Type(), ai) {
			fr.safety("safe:typeassert", x, fr.describe(x), st, not(eq(iv, "niliface")))
			fr.env[x] = Val{t: iv}
			return
		}
		if x.CommaOk {
			var conds []Term
			for _, ct := range fx.eng.concreteImplementers(ai) {
				conds = append(conds, fmt.Sprintf("(= (itag %s) %d)", iv, fx.tm.typeTag(ct)))
			}
			fx.assump["closed world: interface "+typeKey(x.AssertedType)+" is implemented only by the repository's own types"] = true
			ok := fx.s.define("taok", "Bool", or(conds...))
			fr.env[x] = Val{tup: []Val{{t: ite(ok, iv, "niliface")}, {t: ok}}}
			return
		}
		unsupported("type assertion to interface type")
	}
	tag := fx.tm.typeTag(x.AssertedType)
	ok := fx.s.define("taok", "Bool", fmt.Sprintf("(= (itag %s) %d)", iv, tag))
	val := fx.unbox(iv, x.AssertedType)
	if x.CommaOk {
		v := fx.s.define(x.Name(), fx.tm.sortOf(x.AssertedType), ite(ok, val, fx.tm.zero(x.AssertedType)))
		fx.assumeOld(st, x.AssertedType, v)
		fr.env[x] = Val{tup: []Val{{t: v}, {t: ok}}}
		return
	}
	fr.safety("safe:typeassert", x, fr.describe(x), st, ok)
	v := fx.s.define(x.Name(), fx.tm.sortOf(x.AssertedType), val)
	fx.assumeOld(st, x.AssertedType, v)
	fr.env[x] = Val{t: v}
}

// tryClauseIdent evaluates a clause; ok=false only when it fails on an identifier that is unknown at this point
func (fx *FnCtx) tryClauseIdent(fr *Frame, c *Clause, st *State, li *loopInfo) (t Term, ok bool) {
	savedQuant := fx.s.inQuant
	defer func() {
		if r := recover(); r != nil {
			if u, isUns := r.(*UnsupportedError); isUns && strings.Contains(u.msg, "unknown identifier") {
				fx.s.inQuant = savedQuant
				ok = false
				return
			}
			panic(r)
		}
	}()
	return fr.evalClause(c, st, li), true
}

func (fx *FnCtx) tryClause(fr *Frame, c *Clause, st *State, li *loopInfo) (t Term, ok bool) {
	savedQuant := fx.s.inQuant
	defer func() {
		if r := recover(); r != nil {
			if _, isUns := r.(*UnsupportedError); !isUns {
				panic(r)
			}
			fx.s.inQuant = savedQuant
			ok = false
		}
	}()
	return fr.evalClause(c, st, li), true
}

// ---------------------------------------------------------------------------------------------
// returns of the top-level function: postconditions

func (fr *Frame) atReturn(ret *ssa.Return, vals []Val, st *State) {
	fx := fr.fx
	if fr.fc == nil {
		return
	}
	name := fr.obName()
	for _, c := range fr.fc.Ensures {
		fx.s.goal(func() {
			t := fr.evalPost(c.E, vals, st)
			fx.curClause = c
			props := fr.props()
			if len(c.Props) > 0 {
				props = append(append([]string{}, props...), c.Props...)
			}
			fx.oblige("post", fmt.Sprintf("%s/post/%s", name, c.Label), c.Text, st, t, ret.Pos(), props)
			fx.curClause = nil
		})
	}
	for _, c := range fr.fc.Canaries {
		t := fr.evalPost(c.E, vals, st)
		if fx.quiet == 0 {
			ob := &Obligation{Name: fmt.Sprintf("%s/canary/%s", name, c.Label), Kind: "canary", Func: fx.topName(), Text: c.Text, Props: fr.props(), MustSat: true}
			fx.obNames[ob.Name]++
			if n := fx.obNames[ob.Name]; n > 1 {
				ob.Name = fmt.Sprintf("%s#%d", ob.Name, n)
			}
			ob.SMT = fx.s.render(fx.s.mark(), st.guard, t, "canary (must be sat) "+ob.Name+"\n"+c.Text, true)
			fx.obs = append(fx.obs, ob)
		}
	}
}

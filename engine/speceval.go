package main

// Evaluation of specification expressions against a symbolic state.

import (
	"fmt"
	"go/constant"
	"go/types"
	"strings"

	"golang.org/x/tools/go/ssa"
)

type SVal struct {
	v    Val
	typ  types.Type // nil for pure spec sorts
	sort string     // used when typ == nil
}

func (fx *FnCtx) sortOfS(s SVal) string {
	if s.typ != nil {
		return fx.tm.sortOf(s.typ)
	}
	return s.sort
}

type Evaluator struct {
	fx    *FnCtx
	env   map[string]SVal
	st    *State
	old   *State
	lk    func(name string, st *State) (SVal, bool)
	pkg   *ssa.Package
	bound map[string]SVal
	pre   *State // loop-entry state, for pre()
	heads func(n int) (*State, func(string, *State) (SVal, bool))
	calls func(name string, k int) *State
	visitedOf func() Term
	trigs *map[string][]Term // bound variable -> candidate trigger terms (innermost quantifier)
	side  *[]Term // collector of well-formedness facts for values read under the innermost quantifier
	noSide int    // >0: inside a negative position; do not attach side facts
}

// trigger records a candidate instantiation pattern (head G v) for the bound variable v, where G is a ground
// term (the slice, or the domain array of a map). G is abstracted by a declared constant equal to it, because
// solvers reject patterns whose ground parts expand (through define-fun) to terms with ite/and/not.
func (ev *Evaluator) trigger(v Term, head string, ground Term, sort string) {
	if ev.trigs == nil || !strings.HasPrefix(v, "|") || !strings.HasSuffix(v, "?|") {
		return
	}
	if strings.Contains(ground, "?|") {
		return // not ground
	}
	fx := ev.fx
	if fx.trigNames == nil {
		fx.trigNames = map[string]string{}
	}
	name, ok := fx.trigNames[ground]
	if !ok {
		fx.s.n++
		name = fmt.Sprintf("trg!%d", fx.s.n)
		fx.trigNames[ground] = name
		fx.s.lines = append(fx.s.lines, fmt.Sprintf("(declare-fun %s () %s)", name, sort), fmt.Sprintf("(assert (= %s %s))", name, ground))
		fx.s.declared[name] = true
	}
	term := "(" + head + " " + name + " " + v + ")"
	m := *ev.trigs
	for _, t := range m[v] {
		if t == term {
			return
		}
	}
	m[v] = append(m[v], term)
}

// note records that a value of type t was read from ev.st: its well-formedness may be assumed
func (ev *Evaluator) note(t types.Type, v Term) {
	if t == nil {
		return
	}
	switch types.Unalias(t).Underlying().(type) {
	case *types.Pointer, *types.Map, *types.Slice, *types.Basic:
	default:
		if !isTimeTime(t) {
			return
		}
	}
	facts := ev.fx.wfFacts(ev.st, t, v, 0)
	if len(facts) == 0 {
		return
	}
	if ev.fx.s.inQuant > 0 {
		if ev.side != nil && ev.noSide == 0 {
			*ev.side = append(*ev.side, facts...)
		}
		return
	}
	for _, f := range facts {
		if ev.fx.assumeMode && ev.fx.s.curTag == 0 {
			ev.fx.s.assume(ev.st.guard, f)
		} else {
			ev.fx.s.assumeLocal(ev.st.guard, f)
		}
	}
}

func (fx *FnCtx) evalIn(e Expr, env map[string]SVal, st, old *State, lk func(string, *State) (SVal, bool)) SVal {
	ev := &Evaluator{fx: fx, env: env, st: st, old: old, lk: lk, pkg: fx.pkg, bound: map[string]SVal{}}
	return ev.eval(e)
}

var intT = types.Typ[types.Int]
var boolT = types.Typ[types.Bool]
var stringT = types.Typ[types.String]

func (ev *Evaluator) eval(e Expr) SVal {
	fx := ev.fx
	switch x := e.(type) {
	case *EInt:
		return SVal{v: Val{t: x.V}, typ: types.Typ[types.UntypedInt]}
	case *EStr:
		fx.s.usesStr = true
		return SVal{v: Val{t: strLit(x.V)}, typ: stringT}
	case *EBool:
		if x.V {
			return SVal{v: Val{t: "true"}, typ: boolT}
		}
		return SVal{v: Val{t: "false"}, typ: boolT}
	case *ENil:
		return SVal{v: Val{t: "nilref"}, typ: types.Typ[types.UntypedNil]}
	case *EIdent:
		return ev.ident(x.Name)
	case *EOld:
		if ev.old == nil {
			unsupported("old() not available here")
		}
		sub := *ev
		sub.st = ev.old
		return sub.eval(x.X)
	case *EPre:
		if ev.pre == nil {
			unsupported("pre() is only available in loop invariants")
		}
		sub := *ev
		sub.st = ev.pre
		return sub.eval(x.X)
	case *ECond:
		c := ev.eval(x.C)
		a := ev.eval(x.A)
		b := ev.eval(x.B)
		a, b = ev.unify(a, b)
		return SVal{v: Val{t: ite(c.v.t, a.v.t, b.v.t)}, typ: a.typ, sort: a.sort}
	case *EUnary:
		switch x.Op {
		case "!":
			ev.noSide++
			a := ev.eval(x.X).v.t
			ev.noSide--
			return SVal{v: Val{t: not(a)}, typ: boolT}
		case "-":
			a := ev.eval(x.X)
			return SVal{v: Val{t: "(- " + a.v.t + ")"}, typ: a.typ}
		case "*":
			p := ev.eval(x.X)
			pt, ok := p.typ.Underlying().(*types.Pointer)
			if !ok {
				unsupported("spec: * applied to non-pointer")
			}
			lv := fx.load(ev.st, fx.ptrLoc(p.v, pt.Elem()))
			ev.note(pt.Elem(), lv)
			return SVal{v: Val{t: lv}, typ: pt.Elem()}
		case "&":
			// &s[i] only
			if ix, ok := x.X.(*EIndex); ok {
				s := ev.eval(ix.X)
				i := ev.eval(ix.I)
				if st, ok := s.typ.Underlying().(*types.Slice); ok {
					ev.trigger(i.v.t, "elemref", s.v.t, "Slice")
					return SVal{v: Val{t: fmt.Sprintf("(elemref %s %s)", s.v.t, i.v.t)}, typ: types.NewPointer(st.Elem())}
				}
			}
			if id, ok := x.X.(*EIdent); ok && ev.lk != nil {
				if v, ok := ev.lk("&"+id.Name, ev.st); ok {
					return v
				}
			}
			unsupported("spec: & only supported on slice elements and on local variables that live in memory")
		}
	case *EBinary:
		return ev.binary(x)
	case *ESel:
		return ev.sel(x)
	case *EIndex:
		return ev.index(x)
	case *ESlice:
		s := ev.eval(x.X)
		lo := "0"
		if x.Lo != nil {
			lo = ev.eval(x.Lo).v.t
		}
		if isString(s.typ) {
			hi := "(str.len " + s.v.t + ")"
			if x.Hi != nil {
				hi = ev.eval(x.Hi).v.t
			}
			return SVal{v: Val{t: fmt.Sprintf("(str.substr %s %s (- %s %s))", s.v.t, lo, hi, lo)}, typ: s.typ}
		}
		hi := "(slen " + s.v.t + ")"
		if x.Hi != nil {
			hi = ev.eval(x.Hi).v.t
		}
		return SVal{v: Val{t: fmt.Sprintf("(mkslice (sobj %s) (+ (soff %s) %s) (- %s %s) (- (scap %s) %s))", s.v.t, s.v.t, lo, hi, lo, s.v.t, lo)}, typ: s.typ}
	case *EQuant:
		return ev.quant(x)
	case *ECall:
		return ev.call(x)
	}
	unsupported("spec: cannot evaluate %T", e)
	return SVal{}
}

func (ev *Evaluator) ident(name string) SVal {
	fx := ev.fx
	if v, ok := ev.bound[name]; ok {
		return v
	}
	if v, ok := ev.env[name]; ok {
		return v
	}
	if v, ok := ev.env["&"+name]; ok {
		pt := v.typ.Underlying().(*types.Pointer)
		return SVal{v: Val{t: fx.load(ev.st, fx.ptrLoc(v.v, pt.Elem()))}, typ: pt.Elem()}
	}
	if ev.lk != nil {
		if v, ok := ev.lk(name, ev.st); ok {
			return v
		}
	}
	// package scope
	if ev.pkg != nil {
		if obj := ev.pkg.Pkg.Scope().Lookup(name); obj != nil {
			return ev.objVal(obj)
		}
	}
	switch name {
	case "UTC":
		return SVal{v: Val{t: "time_UTC"}, typ: nil, sort: "Ref"}
	}
	unsupported("spec: unknown identifier %q", name)
	return SVal{}
}

func (ev *Evaluator) objVal(obj types.Object) SVal {
	fx := ev.fx
	switch o := obj.(type) {
	case *types.Const:
		return SVal{v: constTerm(fx, o.Val(), o.Type()), typ: o.Type()}
	case *types.Var:
		// package-level variable
		if ev.pkg != nil {
			if g, ok := ev.pkg.Prog.Package(o.Pkg()).Members[o.Name()].(*ssa.Global); ok {
				if tref, ok := fx.globalTable(g, ev.st); ok {
					return SVal{v: Val{t: tref}, typ: o.Type()}
				}
				ref := fx.globalRef(g)
				return SVal{v: Val{t: fx.load(ev.st, fx.ptrLoc(ref, o.Type()))}, typ: o.Type()}
			}
		}
	}
	unsupported("spec: object %s not usable in specifications", obj.Name())
	return SVal{}
}

func constTerm(fx *FnCtx, v constant.Value, t types.Type) Val {
	switch v.Kind() {
	case constant.Bool:
		if constant.BoolVal(v) {
			return Val{t: "true"}
		}
		return Val{t: "false"}
	case constant.String:
		fx.s.usesStr = true
		return Val{t: strLit(constant.StringVal(v))}
	case constant.Int:
		s := v.ExactString()
		if strings.HasPrefix(s, "-") {
			return Val{t: "(- " + s[1:] + ")"}
		}
		return Val{t: s}
	}
	unsupported("spec: constant kind")
	return Val{}
}

func (ev *Evaluator) unify(a, b SVal) (SVal, SVal) {
	isNil := func(s SVal) bool {
		if s.typ == nil {
			return false
		}
		bt, ok := s.typ.(*types.Basic)
		return ok && bt.Kind() == types.UntypedNil
	}
	fix := func(n, other SVal) SVal {
		srt := ev.fx.sortOfS(other)
		switch srt {
		case "Slice":
			n.v.t = "nilslice"
		case "Iface":
			n.v.t = "niliface"
		default:
			n.v.t = "nilref"
		}
		n.typ = other.typ
		n.sort = other.sort
		return n
	}
	if isNil(a) && !isNil(b) {
		a = fix(a, b)
	} else if isNil(b) && !isNil(a) {
		b = fix(b, a)
	}
	return a, b
}

func (ev *Evaluator) binary(x *EBinary) SVal {
	switch x.Op {
	case "&&":
		return SVal{v: Val{t: and(ev.eval(x.X).v.t, ev.eval(x.Y).v.t)}, typ: boolT}
	case "||":
		return SVal{v: Val{t: or(ev.eval(x.X).v.t, ev.eval(x.Y).v.t)}, typ: boolT}
	case "==>":
		ev.noSide++
		a := ev.eval(x.X).v.t
		ev.noSide--
		return SVal{v: Val{t: implies(a, ev.eval(x.Y).v.t)}, typ: boolT}
	case "<==>":
		return SVal{v: Val{t: eq(ev.eval(x.X).v.t, ev.eval(x.Y).v.t)}, typ: boolT}
	}
	a := ev.eval(x.X)
	b := ev.eval(x.Y)
	a, b = ev.unify(a, b)
	at, bt := a.v.t, b.v.t
	str := (a.typ != nil && isString(a.typ)) || (b.typ != nil && isString(b.typ))
	switch x.Op {
	case "==":
		return SVal{v: Val{t: eq(at, bt)}, typ: boolT}
	case "!=":
		return SVal{v: Val{t: not(eq(at, bt))}, typ: boolT}
	case "<", "<=", ">", ">=":
		if str {
			switch x.Op {
			case "<":
				return SVal{v: Val{t: "(str.< " + at + " " + bt + ")"}, typ: boolT}
			case "<=":
				return SVal{v: Val{t: "(str.<= " + at + " " + bt + ")"}, typ: boolT}
			case ">":
				return SVal{v: Val{t: "(str.< " + bt + " " + at + ")"}, typ: boolT}
			default:
				return SVal{v: Val{t: "(str.<= " + bt + " " + at + ")"}, typ: boolT}
			}
		}
		return SVal{v: Val{t: "(" + x.Op + " " + at + " " + bt + ")"}, typ: boolT}
	case "+":
		if str {
			return SVal{v: Val{t: "(str.++ " + at + " " + bt + ")"}, typ: stringT}
		}
		return SVal{v: Val{t: "(+ " + at + " " + bt + ")"}, typ: pickType(a, b)}
	case "-":
		return SVal{v: Val{t: "(- " + at + " " + bt + ")"}, typ: pickType(a, b)}
	case "*":
		return SVal{v: Val{t: "(* " + at + " " + bt + ")"}, typ: pickType(a, b)}
	case "/":
		return SVal{v: Val{t: "(div " + at + " " + bt + ")"}, typ: pickType(a, b)}
	case "%":
		return SVal{v: Val{t: "(mod " + at + " " + bt + ")"}, typ: pickType(a, b)}
	}
	unsupported("spec: operator %s", x.Op)
	return SVal{}
}

func pickType(a, b SVal) types.Type {
	if a.typ != nil {
		if bt, ok := a.typ.(*types.Basic); !ok || bt.Info()&types.IsUntyped == 0 {
			return a.typ
		}
	}
	if b.typ != nil {
		return b.typ
	}
	return a.typ
}

func (ev *Evaluator) sel(x *ESel) SVal {
	fx := ev.fx
	// result.N
	if id, ok := x.X.(*EIdent); ok {
		if v, ok := ev.env[id.Name+"."+x.Name]; ok {
			return v
		}
		// qualified identifier pkg.Name
		if _, isLocal := ev.env[id.Name]; !isLocal && ev.bound[id.Name].v.t == "" && ev.pkg != nil {
			if ev.lk != nil {
				if _, ok := ev.lk(id.Name, ev.st); ok {
					goto notpkg
				}
			}
			if ev.pkg.Pkg.Scope().Lookup(id.Name) == nil {
				for _, imp := range ev.pkg.Pkg.Imports() {
					if imp.Name() == id.Name || ev.fx.eng.importAlias(ev.pkg, imp) == id.Name {
						if obj := imp.Scope().Lookup(x.Name); obj != nil {
							if c, ok := obj.(*types.Const); ok {
								return SVal{v: constTerm(fx, c.Val(), c.Type()), typ: c.Type()}
							}
							if id.Name == "time" && x.Name == "UTC" {
								return SVal{v: Val{t: "time_UTC"}, typ: obj.Type()}
							}
						}
						unsupported("spec: %s.%s is not a constant", id.Name, x.Name)
					}
				}
			}
		}
	}
notpkg:
	b := ev.eval(x.X)
	if b.v.tup != nil {
		var k int
		if _, err := fmt.Sscan(x.Name, &k); err != nil || k < 0 || k >= len(b.v.tup) {
			unsupported("spec: bad tuple component .%s", x.Name)
		}
		return SVal{v: b.v.tup[k], typ: b.typ.(*types.Tuple).At(k).Type()}
	}
	t := b.typ
	if t == nil {
		unsupported("spec: field selection on spec sort")
	}
	v := b.v.t
	if pt, ok := t.Underlying().(*types.Pointer); ok {
		v = fx.load(ev.st, fx.ptrLoc(b.v, pt.Elem()))
		if b.v.loc == nil && strings.HasSuffix(b.v.t, "?|") {
			// a quantified pointer: instantiate on reads of its cell
			hk, hs := fx.tm.heapKey(pt.Elem())
			ev.trigger(b.v.t, "select", fx.heap(ev.st, hk, hs), "(Array Ref "+hs+")")
		}
		t = pt.Elem()
	}
	if isTimeTime(t) {
		unsupported("spec: field of time.Time; use unix(t), ns(t), loc(t)")
	}
	st, ok := t.Underlying().(*types.Struct)
	if !ok {
		unsupported("spec: field %s of non-struct %s", x.Name, t)
	}
	si := fx.tm.structInfo(t)
	for i := 0; i < st.NumFields(); i++ {
		if st.Field(i).Name() == x.Name {
			fv := "(" + si.Fields[i].Sel + " " + v + ")"
			ev.note(st.Field(i).Type(), fv)
			return SVal{v: Val{t: fv}, typ: st.Field(i).Type()}
		}
	}
	// promoted fields through embedded structs
	for i := 0; i < st.NumFields(); i++ {
		if st.Field(i).Embedded() {
			if inner, ok := st.Field(i).Type().Underlying().(*types.Struct); ok {
				for j := 0; j < inner.NumFields(); j++ {
					if inner.Field(j).Name() == x.Name {
						isi := fx.tm.structInfo(st.Field(i).Type())
						return SVal{v: Val{t: "(" + isi.Fields[j].Sel + " (" + si.Fields[i].Sel + " " + v + "))"}, typ: inner.Field(j).Type()}
					}
				}
			}
		}
	}
	unsupported("spec: no field %s in %s", x.Name, t)
	return SVal{}
}

func (ev *Evaluator) index(x *EIndex) SVal {
	fx := ev.fx
	b := ev.eval(x.X)
	i := ev.eval(x.I)
	if b.typ == nil {
		// spec-level array sort "(Array K V)"
		unsupported("spec: index on spec sort")
	}
	switch t := b.typ.Underlying().(type) {
	case *types.Slice:
		key, srt := fx.tm.heapKey(t.Elem())
		h := fx.heap(ev.st, key, srt)
		ev2 := fmt.Sprintf("(select %s (elemref %s %s))", h, b.v.t, i.v.t)
		ev.trigger(i.v.t, "elemref", b.v.t, "Slice")
		ev.note(t.Elem(), ev2)
		return SVal{v: Val{t: ev2}, typ: t.Elem()}
	case *types.Basic:
		return SVal{v: Val{t: fmt.Sprintf("(str.to_code (str.at %s %s))", b.v.t, i.v.t)}, typ: types.Typ[types.Uint8]}
	case *types.Map:
		mi := fx.tm.mapInfo(t)
		h := fx.heap(ev.st, mi.HeapKey, mi.Sort)
		cell := "(select " + h + " " + b.v.t + ")"
		k := fx.encode(i.v, t.Key())
		present := fmt.Sprintf("(and (not (= %s nilref)) (select (%s %s) %s))", b.v.t, mi.Dom, cell, k)
		ev.trigger(k, "select", fmt.Sprintf("(%s %s)", mi.Dom, cell), "(Array "+mi.KeySort+" Bool)")
		mv := ite(present, fmt.Sprintf("(select (%s %s) %s)", mi.Val, cell, k), fx.tm.zero(t.Elem()))
		ev.note(t.Elem(), mv)
		return SVal{v: Val{t: mv}, typ: t.Elem()}
	case *types.Array:
		return SVal{v: Val{t: "(select " + b.v.t + " " + i.v.t + ")"}, typ: t.Elem()}
	case *types.Pointer:
		if arr, ok := t.Elem().Underlying().(*types.Array); ok {
			key, srt := fx.tm.heapKey(arr.Elem())
			h := fx.heap(ev.st, key, srt)
			return SVal{v: Val{t: fmt.Sprintf("(select %s (mkref (obj %s) (+ (idx %s) %s)))", h, b.v.t, b.v.t, i.v.t)}, typ: arr.Elem()}
		}
	}
	unsupported("spec: index on %s", b.typ)
	return SVal{}
}

func dedupTerms(ts []Term) []Term {
	seen := map[string]bool{}
	var out []Term
	for _, t := range ts {
		if !seen[t] {
			seen[t] = true
			out = append(out, t)
		}
	}
	return out
}

func (ev *Evaluator) resolveType(name string) (types.Type, string) {
	name = strings.TrimSpace(name)
	switch name {
	case "Ref":
		return nil, "Ref"
	case "Time":
		return nil, "Time"
	case "Stream":
		return nil, "Stream"
	}
	if strings.HasPrefix(name, "*") {
		t, _ := ev.resolveType(name[1:])
		if t == nil {
			return nil, "Ref"
		}
		return types.NewPointer(t), ""
	}
	if strings.HasPrefix(name, "[]") {
		t, _ := ev.resolveType(name[2:])
		return types.NewSlice(t), ""
	}
	if obj := types.Universe.Lookup(name); obj != nil {
		if tn, ok := obj.(*types.TypeName); ok {
			return tn.Type(), ""
		}
	}
	if i := strings.Index(name, "."); i > 0 && ev.pkg != nil {
		q, n := name[:i], name[i+1:]
		for _, imp := range ev.pkg.Pkg.Imports() {
			if imp.Name() == q || ev.fx.eng.importAlias(ev.pkg, imp) == q {
				if obj := imp.Scope().Lookup(n); obj != nil {
					return obj.Type(), ""
				}
			}
		}
	}
	if ev.pkg != nil {
		if obj := ev.pkg.Pkg.Scope().Lookup(name); obj != nil {
			if tn, ok := obj.(*types.TypeName); ok {
				return tn.Type(), ""
			}
		}
	}
	// a contract of another package evaluated at a call site: its unqualified type names belong to that package
	if !strings.Contains(name, ".") {
		var found types.Type
		n := 0
		for _, p := range ev.fx.eng.prog.AllPackages() {
			if p.Pkg == nil || !strings.HasPrefix(p.Pkg.Path(), "github.com/jamespfennell/gtfs") {
				continue
			}
			if obj := p.Pkg.Scope().Lookup(name); obj != nil {
				if tn, ok := obj.(*types.TypeName); ok {
					found = tn.Type()
					n++
				}
			}
		}
		if n == 1 {
			return found, ""
		}
	}
	unsupported("spec: unknown type %q", name)
	return nil, ""
}

func (ev *Evaluator) quant(x *EQuant) SVal {
	fx := ev.fx
	saved := map[string]SVal{}
	var decls []string
	var ranges []Term
	for _, v := range x.Vars {
		t, srt := ev.resolveType(v.Type)
		if t != nil {
			srt = fx.tm.sortOf(t)
		}
		bn := v.Name + "?"
		bn = "|" + bn + "|"
		decls = append(decls, "("+bn+" "+srt+")")
		if old, ok := ev.bound[v.Name]; ok {
			saved[v.Name] = old
		}
		ev.bound[v.Name] = SVal{v: Val{t: bn}, typ: t, sort: srt}
		if t != nil && isInteger(t) {
			if b := t.Underlying().(*types.Basic); b.Kind() != types.Int && b.Kind() != types.Int64 {
				ranges = append(ranges, intRange(t, bn))
			}
		}
	}
	fx.s.inQuant++
	var side []Term
	savedSide := ev.side
	ev.side = &side
	trigs := map[string][]Term{}
	savedTrigs := ev.trigs
	ev.trigs = &trigs
	body := ev.eval(x.Body).v.t
	ev.side = savedSide
	ev.trigs = savedTrigs
	fx.s.inQuant--
	for _, v := range x.Vars {
		delete(ev.bound, v.Name)
		if old, ok := saved[v.Name]; ok {
			ev.bound[v.Name] = old
		}
	}
	q := "forall"
	if x.Forall {
		body = implies(and(ranges...), body)
		if len(side) > 0 && ev.noSide == 0 {
			if fx.assumeMode {
				body = and(append(dedupTerms(side), body)...)
			} else {
				body = implies(and(dedupTerms(side)...), body)
			}
		}
	} else {
		q = "exists"
		body = and(append(ranges, body)...)
	}
	// explicit instantiation patterns: one trigger term per bound variable (all variables must be covered)
	if x.Forall {
		var pats [][]Term
		covered := true
		maxAlt := 1
		for _, v := range x.Vars {
			ts := trigs["|"+v.Name+"?|"]
			if len(ts) == 0 {
				covered = false
				break
			}
			if len(ts) > maxAlt {
				maxAlt = len(ts)
			}
		}
		if covered {
			if maxAlt > 3 {
				maxAlt = 3
			}
			for alt := 0; alt < maxAlt; alt++ {
				var p []Term
				for _, v := range x.Vars {
					ts := trigs["|"+v.Name+"?|"]
					p = append(p, ts[alt%len(ts)])
				}
				pats = append(pats, p)
			}
			var ps strings.Builder
			for _, p := range pats {
				ps.WriteString(" :pattern (" + strings.Join(p, " ") + ")")
			}
			body = "(! " + body + ps.String() + ")"
		}
	}
	return SVal{v: Val{t: fmt.Sprintf("(%s (%s) %s)", q, strings.Join(decls, " "), body)}, typ: boolT}
}

func (ev *Evaluator) call(x *ECall) SVal {
	fx := ev.fx
	if x.Recv == nil {
		switch x.Fun {
		case "len":
			a := ev.eval(x.Args[0])
			switch t := a.typ.Underlying().(type) {
			case *types.Slice:
				return SVal{v: Val{t: "(slen " + a.v.t + ")"}, typ: intT}
			case *types.Basic:
				return SVal{v: Val{t: "(str.len " + a.v.t + ")"}, typ: intT}
			case *types.Array:
				return SVal{v: Val{t: fmt.Sprint(t.Len())}, typ: intT}
			}
			unsupported("spec: len of %s", a.typ)
		case "cap":
			a := ev.eval(x.Args[0])
			return SVal{v: Val{t: "(scap " + a.v.t + ")"}, typ: intT}
		case "has":
			m := ev.eval(x.Args[0])
			k := ev.eval(x.Args[1])
			mt := m.typ.Underlying().(*types.Map)
			mi := fx.tm.mapInfo(mt)
			h := fx.heap(ev.st, mi.HeapKey, mi.Sort)
			ev.trigger(k.v.t, "select", fmt.Sprintf("(%s (select %s %s))", mi.Dom, h, m.v.t), "(Array "+mi.KeySort+" Bool)")
			return SVal{v: Val{t: fmt.Sprintf("(and (not (= %s nilref)) (select (%s (select %s %s)) %s))", m.v.t, mi.Dom, h, m.v.t, k.v.t)}, typ: boolT}
		case "fresh":
			p := ev.eval(x.Args[0])
			srt := fx.sortOfS(p)
			if srt == "Slice" {
				return SVal{v: Val{t: fmt.Sprintf("(or (= (scap %s) 0) (> (sobj %s) %s))", p.v.t, p.v.t, ev.old.alloc)}, typ: boolT}
			}
			return SVal{v: Val{t: fmt.Sprintf("(> (obj %s) %s)", p.v.t, ev.old.alloc)}, typ: boolT}
		case "visited":
			// visited(k): key k of the ranged-over map was visited in an earlier iteration of the current loop
			if ev.visitedOf == nil {
				unsupported("spec: visited() is only available in invariants of map-range loops")
			}
			k := ev.eval(x.Args[0])
			return SVal{v: Val{t: "(select " + ev.visitedOf() + " " + k.v.t + ")"}, typ: boolT}
		case "sinceLoop", "beforeLoop":
			// allocated after / not after the entry of the enclosing loop
			if ev.pre == nil {
				unsupported("spec: %s() is only available in loop invariants", x.Fun)
			}
			p := ev.eval(x.Args[0])
			o := "(obj " + p.v.t + ")"
			if fx.sortOfS(p) == "Slice" {
				o = "(sobj " + p.v.t + ")"
				if x.Fun == "sinceLoop" {
					return SVal{v: Val{t: fmt.Sprintf("(or (= (scap %s) 0) (> %s %s))", p.v.t, o, ev.pre.alloc)}, typ: boolT}
				}
			}
			if x.Fun == "sinceLoop" {
				return SVal{v: Val{t: fmt.Sprintf("(> %s %s)", o, ev.pre.alloc)}, typ: boolT}
			}
			return SVal{v: Val{t: fmt.Sprintf("(<= %s %s)", o, ev.pre.alloc)}, typ: boolT}
		case "isType", "asType":
			// dynamic type test / unboxing of an interface value; the type is named by "pkgpath.Name" or "*pkgpath.Name"
			v := ev.eval(x.Args[0])
			tn, ok := x.Args[1].(*EStr)
			if !ok {
				unsupported("spec: %s(x, \"pkgpath.Type\")", x.Fun)
			}
			t := fx.eng.typeByName(tn.V)
			if t == nil {
				unsupported("spec: unknown type %q", tn.V)
			}
			if x.Fun == "isType" {
				return SVal{v: Val{t: fmt.Sprintf("(= (itag %s) %d)", v.v.t, fx.tm.typeTag(t))}, typ: boolT}
			}
			return SVal{v: Val{t: fx.unbox(v.v.t, t)}, typ: t}
		case "obj":
			p := ev.eval(x.Args[0])
			if fx.sortOfS(p) == "Slice" {
				return SVal{v: Val{t: "(sobj " + p.v.t + ")"}, typ: intT}
			}
			return SVal{v: Val{t: "(obj " + p.v.t + ")"}, typ: intT}
		case "idx":
			p := ev.eval(x.Args[0])
			return SVal{v: Val{t: "(idx " + p.v.t + ")"}, typ: intT}
		case "off":
			p := ev.eval(x.Args[0])
			return SVal{v: Val{t: "(soff " + p.v.t + ")"}, typ: intT}
		case "unix":
			t := ev.eval(x.Args[0])
			return SVal{v: Val{t: "(div (t_ns " + t.v.t + ") 1000000000)"}, typ: types.Typ[types.Int64]}
		case "ns":
			t := ev.eval(x.Args[0])
			return SVal{v: Val{t: "(t_ns " + t.v.t + ")"}, typ: types.Typ[types.Int64]}
		case "loc":
			t := ev.eval(x.Args[0])
			return SVal{v: Val{t: "(t_loc " + t.v.t + ")"}, sort: "Ref"}
		case "existedAtHead":
			// existedAtHead(n, p): the object p points to was allocated before the current iteration of loop n began
			if ev.heads == nil {
				unsupported("spec: existedAtHead() not available here")
			}
			n, ok1 := x.Args[0].(*EInt)
			if !ok1 {
				unsupported("spec: existedAtHead(n, p)")
			}
			var ord int
			fmt.Sscan(n.V, &ord)
			hst, _ := ev.heads(ord)
			pv := ev.eval(x.Args[1])
			return SVal{v: Val{t: fmt.Sprintf("(<= (obj %s) %s)", pv.v.t, hst.alloc)}, typ: boolT}
		case "sameheapSinceHead":
			// sameheapSinceHead(n, "T"): no cell of type T differs from the start of the current iteration of loop n
			if ev.heads == nil {
				unsupported("spec: sameheapSinceHead() not available here")
			}
			n, ok1 := x.Args[0].(*EInt)
			tn, ok2 := x.Args[1].(*EStr)
			if !ok1 || !ok2 {
				unsupported("spec: sameheapSinceHead(n, \"T\")")
			}
			var ord int
			fmt.Sscan(n.V, &ord)
			hst, _ := ev.heads(ord)
			t, _ := ev.resolveType(tn.V)
			if t == nil {
				unsupported("spec: sameheapSinceHead: unknown type %s", tn.V)
			}
			key, srt := fx.tm.heapKey(t)
			return SVal{v: Val{t: eq(fx.heap(ev.st, key, srt), fx.heap(hst, key, srt))}, typ: boolT}
		case "sameheap", "sameheapSinceLoop":
			// sameheap("T"): no cell of type T has a different content than in the pre-state (two-state contexts);
			// sameheapSinceLoop("T"): ... than at the entry of the enclosing loop (loop invariants)
			tn, ok := x.Args[0].(*EStr)
			if !ok || ev.old == nil {
				unsupported("spec: sameheap(\"T\") needs a type name and a pre-state")
			}
			if x.Fun == "sameheapSinceLoop" {
				if ev.pre == nil {
					unsupported("spec: sameheapSinceLoop() is only available in loop invariants")
				}
				t, _ := ev.resolveType(tn.V)
				if t == nil {
					unsupported("spec: sameheapSinceLoop: unknown type %s", tn.V)
				}
				key, srt := fx.tm.heapKey(t)
				return SVal{v: Val{t: eq(fx.heap(ev.st, key, srt), fx.heap(ev.pre, key, srt))}, typ: boolT}
			}
			t, _ := ev.resolveType(tn.V)
			if t == nil {
				unsupported("spec: sameheap: unknown type %s", tn.V)
			}
			key, srt := fx.tm.heapKey(t)
			return SVal{v: Val{t: eq(fx.heap(ev.st, key, srt), fx.heap(ev.old, key, srt))}, typ: boolT}
		case "int32OK":
			a := ev.eval(x.Args[0])
			fx.ufun("parseint32_ok", []string{"String"}, "Bool")
			return SVal{v: Val{t: "(parseint32_ok " + a.v.t + ")"}, typ: boolT}
		case "int32Val":
			a := ev.eval(x.Args[0])
			fx.ufun("parseint32_val", []string{"String"}, "Int")
			return SVal{v: Val{t: "(parseint32_val " + a.v.t + ")"}, typ: intT}
		case "floatOK":
			a := ev.eval(x.Args[0])
			fx.ufun("parsefloat_ok", []string{"String", "Int"}, "Bool")
			return SVal{v: Val{t: "(parsefloat_ok " + a.v.t + " 64)"}, typ: boolT}
		case "floatVal":
			a := ev.eval(x.Args[0])
			fx.ufun("parsefloat_val", []string{"String", "Int"}, "F64")
			return SVal{v: Val{t: "(parsefloat_val " + a.v.t + " 64)"}, typ: types.Typ[types.Float64]}
		case "trimSpace":
			a := ev.eval(x.Args[0])
			fx.ufun("trimspace", []string{"String"}, "String")
			return SVal{v: Val{t: "(trimspace " + a.v.t + ")"}, typ: stringT}
		case "atoiOK":
			a := ev.eval(x.Args[0])
			fx.ufun("atoi_ok", []string{"String"}, "Bool")
			return SVal{v: Val{t: "(atoi_ok " + a.v.t + ")"}, typ: boolT}
		case "atoiVal":
			a := ev.eval(x.Args[0])
			fx.ufun("atoi_val", []string{"String"}, "Int")
			return SVal{v: Val{t: "(atoi_val " + a.v.t + ")"}, typ: intT}
		case "itoa":
			a := ev.eval(x.Args[0])
			return SVal{v: Val{t: intToStr(a.v.t)}, typ: stringT}
		case "toInt":
			s := ev.eval(x.Args[0])
			return SVal{v: Val{t: "(str.to_int " + s.v.t + ")"}, typ: intT}
		case "civilMidnight":
			// the instant time.Date(y, m, d, 0, 0, 0, 0, loc) denotes, presented in loc
			y, m, d, l := ev.eval(x.Args[0]), ev.eval(x.Args[1]), ev.eval(x.Args[2]), ev.eval(x.Args[3])
			fx.ufun("civil_ns", []string{"Int", "Int", "Int", "Int", "Int", "Int", "Int", "Ref"}, "Int")
			return SVal{v: Val{t: fmt.Sprintf("(mktime (civil_ns %s %s %s 0 0 0 0 %s) %s)", y.v.t, m.v.t, d.v.t, l.v.t, l.v.t)}, sort: "Time"}
		case "parsedDate":
			// the value time.ParseInLocation(layout, s, loc) returns when it succeeds
			lay, sv, l := ev.eval(x.Args[0]), ev.eval(x.Args[1]), ev.eval(x.Args[2])
			fx.ufun("parsetime_ns", []string{"String", "String", "Ref"}, "Int")
			return SVal{v: Val{t: fmt.Sprintf("(mktime (parsetime_ns %s %s %s) %s)", lay.v.t, sv.v.t, l.v.t, l.v.t)}, sort: "Time"}
		case "validDate":
			lay, sv := ev.eval(x.Args[0]), ev.eval(x.Args[1])
			fx.ufun("parsetime_ok", []string{"String", "String"}, "Bool")
			return SVal{v: Val{t: fmt.Sprintf("(parsetime_ok %s %s)", lay.v.t, sv.v.t)}, typ: boolT}
		case "hasPrefix":
			s := ev.eval(x.Args[0])
			p := ev.eval(x.Args[1])
			return SVal{v: Val{t: "(str.prefixof " + p.v.t + " " + s.v.t + ")"}, typ: boolT}
		case "isDigits":
			s := ev.eval(x.Args[0])
			fx.s.global("isDigits", `(define-fun isDigits ((s String)) Bool (or (= s "") (>= (str.to_int s) 0)))`)
			return SVal{v: Val{t: "(isDigits " + s.v.t + ")"}, typ: boolT}
		case "athead":
			// athead(n, e): e evaluated in the state at the head of loop n (start of the current iteration)
			if ev.heads == nil {
				unsupported("spec: athead() not available here")
			}
			n, ok := x.Args[0].(*EInt)
			if !ok {
				unsupported("spec: athead(n, e) needs a literal loop ordinal")
			}
			var ord int
			fmt.Sscan(n.V, &ord)
			hst, hlk := ev.heads(ord)
			sub := *ev
			sub.st = hst
			sub.lk = hlk
			return sub.eval(x.Args[1])
		case "atcall", "precall":
			// atcall("callee", k, e): e evaluated in the state right after the k-th call (1-based) of callee
			if ev.calls == nil {
				unsupported("spec: atcall() not available here")
			}
			nm, ok1 := x.Args[0].(*EStr)
			kk, ok2 := x.Args[1].(*EInt)
			if !ok1 || !ok2 {
				unsupported("spec: atcall(\"callee\", k, e)")
			}
			var k int
			fmt.Sscan(kk.V, &k)
			if x.Fun == "precall" {
				k = -k
			}
			cst := ev.calls(nm.V, k)
			sub := *ev
			sub.st = cst
			return sub.eval(x.Args[2])
		case "snil":
			return SVal{v: Val{t: "snil"}, sort: "Stream"}
		case "uint64", "int64", "uint32", "int32", "uint8", "bool", "float32", "float64", "string":
			if len(x.Args) == 1 {
				a := ev.eval(x.Args[0])
				return SVal{v: a.v, typ: types.Universe.Lookup(x.Fun).Type()}
			}
		case "ite":
			c := ev.eval(x.Args[0])
			a := ev.eval(x.Args[1])
			b := ev.eval(x.Args[2])
			a, b = ev.unify(a, b)
			return SVal{v: Val{t: ite(c.v.t, a.v.t, b.v.t)}, typ: a.typ, sort: a.sort}
		case "int":
			return SVal{v: ev.eval(x.Args[0]).v, typ: intT}
		case "raw":
			// raw SMT escape hatch for ghost symbols: raw("name")
			if s, ok := x.Args[0].(*EStr); ok {
				srt := "Int"
				if len(x.Args) > 1 {
					srt = x.Args[1].(*EStr).V
				}
				return SVal{v: Val{t: s.V}, sort: srt}
			}
		}
		if sf, ok := fx.eng.contracts.SpecFuncs[x.Fun]; ok {
			return ev.specFunc(sf, x.Args)
		}
		if g, ok := fx.ghostFuncs[x.Fun]; ok {
			var args []SVal
			for _, a := range x.Args {
				args = append(args, ev.eval(a))
			}
			return g(ev, args)
		}
		// a Go function of the package
		if ev.pkg != nil {
			if fn := ev.pkg.Func(x.Fun); fn != nil {
				var args []SVal
				for _, a := range x.Args {
					args = append(args, ev.eval(a))
				}
				return ev.goCall(fn, args)
			}
		}
		unsupported("spec: unknown function %q", x.Fun)
	}
	// qualified call pkg.f(...)
	if id, ok := x.Recv.(*EIdent); ok && ev.pkg != nil {
		_, inEnv := ev.env[id.Name]
		_, inBound := ev.bound[id.Name]
		local := inEnv || inBound
		if !local && ev.lk != nil {
			if _, ok := ev.lk(id.Name, ev.st); ok {
				local = true
			}
		}
		if !local {
			for _, imp := range ev.pkg.Pkg.Imports() {
				if imp.Name() == id.Name || fx.eng.importAlias(ev.pkg, imp) == id.Name {
					if sf, ok := fx.eng.contracts.SpecFuncs[x.Fun]; ok && sf.Pkg == imp.Path() {
						return ev.specFunc(sf, x.Args)
					}
					if p := fx.eng.pkgByPath[imp.Path()]; p != nil {
						if fn := p.Func(x.Fun); fn != nil {
							var args []SVal
							for _, a := range x.Args {
								args = append(args, ev.eval(a))
							}
							return ev.goCall(fn, args)
						}
					}
					unsupported("spec: unknown function %s.%s", id.Name, x.Fun)
				}
			}
		}
	}
	// method call on a Go value
	recv := ev.eval(x.Recv)
	if recv.typ == nil {
		unsupported("spec: method call on spec sort")
	}
	if g, ok := fx.ghostFuncs["."+x.Fun]; ok {
		args := []SVal{recv}
		for _, a := range x.Args {
			args = append(args, ev.eval(a))
		}
		return g(ev, args)
	}
	sel := fx.eng.prog.MethodSets.MethodSet(recv.typ).Lookup(ev.pkgOf(recv.typ), x.Fun)
	if sel == nil {
		sel = fx.eng.prog.MethodSets.MethodSet(types.NewPointer(recv.typ)).Lookup(ev.pkgOf(recv.typ), x.Fun)
	}
	if sel == nil {
		unsupported("spec: no method %s on %s", x.Fun, recv.typ)
	}
	fn := fx.eng.prog.MethodValue(sel)
	args := []SVal{recv}
	for _, a := range x.Args {
		args = append(args, ev.eval(a))
	}
	return ev.goCall(fn, args)
}

func (ev *Evaluator) pkgOf(t types.Type) *types.Package {
	if pt, ok := t.(*types.Pointer); ok {
		t = pt.Elem()
	}
	if n, ok := types.Unalias(t).(*types.Named); ok {
		return n.Obj().Pkg()
	}
	if ev.pkg != nil {
		return ev.pkg.Pkg
	}
	return nil
}

func (ev *Evaluator) specFunc(sf *SpecFunc, argExprs []Expr) SVal {
	fx := ev.fx
	if len(argExprs) != len(sf.Params) {
		unsupported("spec: %s expects %d arguments", sf.Name, len(sf.Params))
	}
	var args []SVal
	for _, a := range argExprs {
		args = append(args, ev.eval(a))
	}
	if sf.Body != nil {
		// defined function: substitute (macro expansion) in the callee's package scope
		sub := &Evaluator{fx: fx, env: map[string]SVal{}, st: ev.st, old: ev.old, pkg: fx.eng.pkgByPath[sf.Pkg], bound: map[string]SVal{},
			pre: ev.pre, heads: ev.heads, calls: ev.calls, side: ev.side, noSide: ev.noSide, trigs: ev.trigs, visitedOf: ev.visitedOf}
		for k, v := range ev.bound {
			sub.bound[k] = v
		}
		for i, p := range sf.Params {
			a := args[i]
			if p.Type != "?" { // "?": polymorphic parameter, keeps the argument's own type
				t, srt := sub.resolveType(p.Type)
				if t != nil {
					a.typ = t
				} else {
					a.sort = srt
				}
			}
			sub.env[p.Name] = a
			delete(sub.bound, p.Name) // parameters shadow quantified variables of the caller
		}
		r := sub.eval(sf.Body)
		if rt, srt := sub.resolveType(sf.Ret); rt != nil {
			r.typ = rt
		} else {
			r.typ = nil
			r.sort = srt
		}
		return r
	}
	// uninterpreted
	var ps []string
	var as []string
	for i, p := range sf.Params {
		t, srt := ev.resolveType(p.Type)
		if t != nil {
			srt = fx.tm.sortOf(t)
		}
		ps = append(ps, srt)
		as = append(as, args[i].v.t)
	}
	rt, rs := ev.resolveType(sf.Ret)
	if rt != nil {
		rs = fx.tm.sortOf(rt)
	}
	fx.s.global("spec_"+sf.Name, fmt.Sprintf("(declare-fun spec_%s (%s) %s)", sf.Name, strings.Join(ps, " "), rs))
	return SVal{v: Val{t: app("spec_"+sf.Name, as...)}, typ: rt, sort: rs}
}

// goCall evaluates a real Go function symbolically inside a specification (its SSA is the definition).
// The function must be loop free; its effects on the heap are discarded and no obligations are emitted.
func (ev *Evaluator) goCall(fn *ssa.Function, args []SVal) SVal {
	fx := ev.fx
	if len(findLoops(fn)) > 0 {
		unsupported("spec: Go function %s has loops and cannot be used as a spec function", fn.Name())
	}
	var vals []Val
	for i, a := range args {
		v := a.v
		// auto address/deref adjustments for receivers
		if i == 0 && fn.Signature.Recv() != nil {
			_, wantPtr := fn.Signature.Recv().Type().Underlying().(*types.Pointer)
			_, havePtr := a.typ.Underlying().(*types.Pointer)
			if wantPtr && !havePtr {
				unsupported("spec: method %s needs an addressable receiver", fn.Name())
			}
			if !wantPtr && havePtr {
				pt := a.typ.Underlying().(*types.Pointer)
				v = Val{t: fx.load(ev.st, fx.ptrLoc(a.v, pt.Elem()))}
			}
		}
		vals = append(vals, v)
	}
	fx.quiet++
	nf := fx.newFrame(fn, false)
	fx.depth++
	st := ev.st.clone()
	st.guard = "true"
	res, out := nf.run(vals, nil, st)
	fx.depth--
	fx.quiet--
	if out == nil || len(res) == 0 {
		unsupported("spec: Go function %s does not return a value", fn.Name())
	}
	if len(res) > 1 {
		return SVal{v: Val{tup: res}, typ: fn.Signature.Results()}
	}
	return SVal{v: res[0], typ: fn.Signature.Results().At(0).Type()}
}

// ---------------------------------------------------------------------------------------------
// frame-level glue

func (fr *Frame) lookupName(name string, st *State, li *loopInfo) (SVal, bool) {
	fx := fr.fx
	if i := strings.Index(name, "#"); i > 0 {
		// name#Type: among the variables called name, the one of Go type Type
		fr.nameTypeFilter = name[i+1:]
		defer func() { fr.nameTypeFilter = "" }()
		name = name[:i]
		if v := fr.resolveDebugName(name, li); v != nil {
			return fr.nameVal(v, false, st), true
		}
		return SVal{}, false
	}
	if strings.HasPrefix(name, "&") {
		// &x: the cell of a local variable that lives in memory (its address is taken or it is accessed by field)
		if v, ok := fr.addrNames[name[1:]]; ok {
			return SVal{v: fr.val(v), typ: v.Type()}, true
		}
		return SVal{}, false
	}
	if name == "$i" || name == "$k" {
		if li == nil || li.rangeIx == nil {
			unsupported("spec: $i outside a range-index loop")
		}
		return SVal{v: Val{t: "(+ " + fr.val(li.rangeIx).t + " 1)"}, typ: intT}, true
	}
	if li != nil {
		// inside the body a parameter may have been re-assigned (it is then an ordinary SSA value / phi)
		isParam := false
		for _, p := range fr.fn.Params {
			if p.Name() == name {
				isParam = true
			}
		}
		if isParam {
			if v, ok := li.resolved[name]; ok && fr.evalAt == nil && li.resolved != nil {
				return fr.nameVal(v, false, st), true
			}
			if v := fr.resolveDebugName(name, li); v != nil {
				if li.resolved == nil {
					li.resolved = map[string]ssa.Value{}
					li.resolvedAddr = map[string]bool{}
				}
				if fr.evalAt == nil {
					li.resolved[name] = v
				}
				return fr.nameVal(v, false, st), true
			}
		}
	}
	for _, p := range fr.fn.Params {
		if p.Name() == name {
			return SVal{v: fr.val(p), typ: p.Type()}, true
		}
	}
	for _, fv := range fr.fn.FreeVars {
		if fv.Name() == name {
			pt := fv.Type().Underlying().(*types.Pointer)
			return SVal{v: Val{t: fx.load(st, fx.ptrLoc(fr.val(fv), pt.Elem()))}, typ: pt.Elem()}, true
		}
	}
	if li != nil {
		if li.resolved == nil {
			li.resolved = map[string]ssa.Value{}
			li.resolvedAddr = map[string]bool{}
		}
		if v, ok := li.resolved[name]; ok && fr.evalAt == nil {
			return fr.nameVal(v, li.resolvedAddr[name], st), true
		}
		for _, ins := range li.header.Instrs {
			if phi, ok := ins.(*ssa.Phi); ok && phi.Comment == name {
				li.resolved[name] = phi
				return fr.nameVal(phi, false, st), true
			}
		}
	}
	if v, ok := fr.addrNames[name]; ok {
		if li != nil {
			li.resolved[name] = v
			li.resolvedAddr[name] = true
		}
		return fr.nameVal(v, true, st), true
	}
	if v := fr.resolveDebugName(name, li); v != nil {
		if li != nil && fr.evalAt == nil {
			li.resolved[name] = v
		}
		return fr.nameVal(v, false, st), true
	}
	return SVal{}, false
}

func (fr *Frame) typeFilterOK(t types.Type) bool {
	if fr.nameTypeFilter == "" {
		return true
	}
	ts := types.TypeString(t, func(p *types.Package) string {
		if fr.fn.Pkg != nil && p == fr.fn.Pkg.Pkg {
			return ""
		}
		return p.Name()
	})
	return ts == fr.nameTypeFilter
}

// resolveDebugName: the SSA value a source-level variable name denotes at a loop head (or at function level):
// among all values the debug information associates with the name, the one defined deepest in the dominator
// tree that still dominates the program point. (Declarations may carry a zero constant; uses carry the value.)
func (fr *Frame) resolveDebugName(name string, li *loopInfo) ssa.Value {
	if fr.debugRefs2 == nil {
		fr.debugRefs2 = map[string][]*ssa.DebugRef{}
		for _, b := range fr.fn.Blocks {
			for _, ins := range b.Instrs {
				if d, ok := ins.(*ssa.DebugRef); ok && !d.IsAddr {
					if obj := d.Object(); obj != nil {
						fr.debugRefs2[obj.Name()] = append(fr.debugRefs2[obj.Name()], d)
					}
				}
			}
		}
	}
	var best ssa.Value
	bestDepth := -2
	depth := func(b *ssa.BasicBlock) int {
		d := 0
		for x := b.Idom(); x != nil; x = x.Idom() {
			d++
		}
		return d
	}
	dominatesPoint := func(b *ssa.BasicBlock) bool {
		if fr.evalAt != nil {
			// a step clause is evaluated at the end of block evalAt (back edge): body-local variables are visible
			return b == fr.evalAt || b.Dominates(fr.evalAt)
		}
		if li == nil {
			return true
		}
		return b != li.header && b.Dominates(li.header)
	}
	// (a) loop-carried variables of enclosing loops: phis named after the variable
	if li != nil {
		for _, b := range fr.fn.Blocks {
			if !(b == li.header || b.Dominates(li.header)) {
				continue
			}
			for _, ins := range b.Instrs {
				phi, ok := ins.(*ssa.Phi)
				if !ok {
					break
				}
				if phi.Comment == name && fr.typeFilterOK(phi.Type()) {
					if _, bound := fr.env[phi]; bound {
						if d := depth(b) * 100000; d > bestDepth {
							best, bestDepth = phi, d
						}
					}
				}
			}
		}
	}
	// (b) associations "name denotes v" made on every path to the program point
	var declObj types.Object
	for _, dr := range fr.debugRefs2[name] {
		v := dr.X
		db := dr.Block()
		if !dominatesPoint(db) || !fr.typeFilterOK(v.Type()) {
			continue
		}
		if isConstLike(v) {
			if c, isC := v.(*ssa.Const); isC && c.Value == nil || isZeroConst(v) {
				declObj = dr.Object()
				continue // a declaration's zero value: see (c)
			}
		} else if _, bound := fr.env[v]; !bound {
			continue
		}
		if d := depth(db)*100000 + indexInBlock(dr); d > bestDepth {
			best, bestDepth = v, d
		}
	}
	if best != nil {
		return best
	}
	// (c) the declaration carried only the zero value (x := make(...), x := T{...}): take the value later uses of
	// the same variable refer to, provided it is defined before the program point
	for _, dr := range fr.debugRefs2[name] {
		if declObj != nil && dr.Object() != declObj {
			continue
		}
		if !fr.typeFilterOK(dr.X.Type()) {
			continue
		}
		ins, ok := dr.X.(ssa.Instruction)
		if !ok {
			continue
		}
		if _, isPhi := dr.X.(*ssa.Phi); isPhi {
			continue
		}
		if !dominatesPoint(ins.Block()) {
			continue
		}
		if _, bound := fr.env[dr.X]; !bound {
			continue
		}
		if d := depth(ins.Block())*100000 + indexInBlock(ins); d > bestDepth {
			best, bestDepth = dr.X, d
		}
	}
	if best == nil && declObj != nil {
		for _, dr := range fr.debugRefs2[name] {
			if isConstLike(dr.X) && dominatesPoint(dr.Block()) {
				return dr.X
			}
		}
	}
	return best
}

func isZeroConst(v ssa.Value) bool {
	c, ok := v.(*ssa.Const)
	if !ok {
		return false
	}
	return c.Value == nil
}

func indexInBlock(ins ssa.Instruction) int {
	for i, x := range ins.Block().Instrs {
		if x == ins {
			return i
		}
	}
	return 0
}

func isConstLike(v ssa.Value) bool {
	switch v.(type) {
	case *ssa.Const, *ssa.Global, *ssa.Function:
		return true
	}
	return false
}

func (fr *Frame) nameVal(v ssa.Value, isAddr bool, st *State) SVal {
	fx := fr.fx
	if isAddr {
		pt := v.Type().Underlying().(*types.Pointer)
		return SVal{v: Val{t: fx.load(st, fx.ptrLoc(fr.val(v), pt.Elem()))}, typ: pt.Elem()}
	}
	return SVal{v: fr.val(v), typ: v.Type()}
}

func (fr *Frame) evalSpec(e Expr, st *State, li *loopInfo) SVal {
	fx := fr.fx
	lk := func(name string, s *State) (SVal, bool) { return fr.lookupName(name, s, li) }
	ev := &Evaluator{fx: fx, env: map[string]SVal{}, st: st, old: fx.entry, lk: lk, pkg: fx.pkg, bound: map[string]SVal{}}
	if li != nil {
		ev.pre = li.preSt
		if li.visitedSort != "" {
			l := li
			ev.visitedOf = func() Term {
				switch fr.visitedMode {
				case 1: // loop entry: nothing visited
					return "((as const " + l.visitedSort + ") false)"
				case 2: // back edge: the current key has been visited as well
					if l.visitedNext != "" {
						return l.visitedNext
					}
				}
				return l.visited
			}
		}
	}
	ev.heads = fr.headsFunc()
	return ev.eval(e)
}

// headsFunc gives access to the state (and variable values) at the head of loop n of this frame
func (fr *Frame) headsFunc() func(n int) (*State, func(string, *State) (SVal, bool)) {
	return func(n int) (*State, func(string, *State) (SVal, bool)) {
		for _, li := range fr.loops {
			if li.ordinal == n {
				if li.hdrSt == nil {
					unsupported("spec: athead(%d, ..) used before loop %d is reached", n, n)
				}
				l := li
				return l.hdrSt, func(name string, s *State) (SVal, bool) {
					if name == "$i" || name == "$k" {
						if l.rangeIx == nil {
							unsupported("spec: $i outside a range-index loop")
						}
						return SVal{v: Val{t: "(+ " + l.phiVals[l.rangeIx].t + " 1)"}, typ: intT}, true
					}
					for phi, v := range l.phiVals {
						if phi.Comment == name {
							return SVal{v: v, typ: phi.Type()}, true
						}
					}
					return fr.lookupName(name, s, l)
				}
			}
		}
		unsupported("spec: no loop %d", n)
		return nil, nil
	}
}

func (fr *Frame) evalClause(c *Clause, st *State, li *loopInfo) Term {
	return fr.evalSpec(c.E, st, li).v.t
}

func (fr *Frame) evalPost(e Expr, vals []Val, st *State) Term {
	fx := fr.fx
	env := map[string]SVal{}
	fx.bindResults(env, fr.fn, vals)
	lk := func(name string, s *State) (SVal, bool) { return fr.lookupName(name, s, nil) }
	ev := &Evaluator{fx: fx, env: env, st: st, old: fx.entry, lk: lk, pkg: fx.pkg, bound: map[string]SVal{}}
	ev.heads = fr.headsFunc()
	ev.calls = func(name string, k int) *State {
		l := fr.callStates[name]
		if k < 0 {
			l = fr.preCallStates[name]
			k = -k
		}
		if k < 1 || k > len(l) {
			unsupported("spec: atcall(%q, %d): no such call", name, k)
		}
		return l[k-1]
	}
	return ev.eval(e).v.t
}

package main

// Discharging obligations: solvers are raced per obligation.

import (
	"crypto/sha256"
	"encoding/hex"
	"fmt"
	"regexp"
	"bytes"
	"context"
	"os"
	"os/exec"
	"strings"
	"sync"
	"time"
)

type SolveResult struct {
	Status string // unsat, sat, unknown, timeout, error, trivial
	Solver string
	TimeS  float64
	Output string
	Cross  string // second solver agreeing (thorough tier)
}

type solverSpec struct {
	name string
	args func(path string, timeoutS int) []string
}

var solvers = []solverSpec{
	{"z3-new", func(p string, t int) []string { return []string{"z3-new", "-T:" + itoa(t), p} }},
	{"cvc5", func(p string, t int) []string {
		return []string{"cvc5", "--strings-exp", "--tlimit=" + itoa(t*1000), "--full-saturate-quant", p}
	}},
	{"z3", func(p string, t int) []string { return []string{"z3", "-T:" + itoa(t), p} }},
	{"z3-ematch", func(p string, t int) []string { return []string{"z3", "-T:" + itoa(t), "smt.mbqi=false", p} }},
	{"z3-new-ematch", func(p string, t int) []string { return []string{"z3-new", "-T:" + itoa(t), "smt.mbqi=false", p} }},
}

func itoa(i int) string { return fmtInt(i) }
func itoaUnused(i int) string {
	return strings.TrimSpace(strings.Replace(string(rune('0'+i%10)), "", "", 0))[:0] + fmtInt(i)
}

func fmtInt(i int) string {
	if i == 0 {
		return "0"
	}
	neg := i < 0
	if neg {
		i = -i
	}
	var b []byte
	for i > 0 {
		b = append([]byte{byte('0' + i%10)}, b...)
		i /= 10
	}
	if neg {
		b = append([]byte{'-'}, b...)
	}
	return string(b)
}

func runSolver(ctx context.Context, sp solverSpec, path string, timeoutS int) SolveResult {
	start := time.Now()
	argv := sp.args(path, timeoutS)
	cctx, cancel := context.WithTimeout(ctx, time.Duration(timeoutS+2)*time.Second)
	defer cancel()
	cmd := exec.CommandContext(cctx, argv[0], argv[1:]...)
	var out bytes.Buffer
	cmd.Stdout = &out
	cmd.Stderr = &out
	_ = cmd.Run()
	res := SolveResult{Solver: sp.name, TimeS: time.Since(start).Seconds(), Output: out.String()}
	first := ""
	for _, l := range strings.Split(out.String(), "\n") {
		l = strings.TrimSpace(l)
		if l == "" || strings.HasPrefix(l, "WARNING") {
			continue
		}
		first = l
		break
	}
	switch first {
	case "unsat", "sat", "unknown":
		res.Status = first
	case "timeout":
		res.Status = "timeout"
	default:
		if cctx.Err() != nil || strings.Contains(first, "timeout") || strings.Contains(out.String(), "interrupted by timeout") {
			res.Status = "timeout"
		} else {
			res.Status = "error"
		}
	}
	return res
}

// solve one obligation file: quick first attempt with z3-new, then race all three.
func solveFile(path string, timeoutS int, cross bool) SolveResult {
	ctx := context.Background()
	first := runSolver(ctx, solvers[0], path, min(3, timeoutS))
	if first.Status == "unsat" || first.Status == "sat" {
		if cross && first.Status == "unsat" {
			for _, sp := range solvers[1:] {
				r := runSolver(ctx, sp, path, timeoutS)
				if r.Status == "unsat" {
					first.Cross = sp.name
					break
				}
			}
		}
		return first
	}
	rctx, cancel := context.WithCancel(ctx)
	defer cancel()
	ch := make(chan SolveResult, len(solvers))
	for _, sp := range solvers {
		sp := sp
		go func() { ch <- runSolver(rctx, sp, path, timeoutS) }()
	}
	var last SolveResult
	var outs []string
	for range solvers {
		r := <-ch
		outs = append(outs, r.Solver+": "+firstLine(r.Output))
		if r.Status == "unsat" || r.Status == "sat" {
			cancel()
			return r
		}
		if last.Status == "" || r.Status == "unknown" {
			last = r
		}
	}
	last.Output = strings.Join(outs, "\n")
	if last.Status == "error" {
		// keep full output of an erroring solver for diagnosis
	}
	return last
}

// illSorted: the solver rejected the script itself (sort or parse error), as opposed to failing to decide it
func illSorted(out string) bool {
	return strings.Contains(out, "are incompatible") || strings.Contains(out, "Sort mismatch") || strings.Contains(out, "sort mismatch") || strings.Contains(out, "unknown constant") || strings.Contains(out, "invalid function application")
}

func firstLine(s string) string {
	s = strings.TrimSpace(s)
	if i := strings.IndexByte(s, '\n'); i >= 0 {
		return s[:i]
	}
	return s
}

type job struct {
	ob     *Obligation
	path   string
	res    SolveResult
	sliced string
}

// result cache keyed by the exact obligation text (and the tier's timeout class): VC generation always runs from
// /repo's current source; only the solver's verdict on an identical script is reused.
var cacheDir = ""

func cacheKey(smt string) string {
	// comment lines (obligation name, source position) are not part of the query
	var b strings.Builder
	for _, l := range strings.Split(smt, "\n") {
		if strings.HasPrefix(l, ";") {
			continue
		}
		b.WriteString(l)
		b.WriteByte('\n')
	}
	h := sha256.Sum256([]byte(b.String()))
	return hex.EncodeToString(h[:])
}

func cacheGet(smt string) (SolveResult, bool) {
	if cacheDir == "" {
		return SolveResult{}, false
	}
	b, err := os.ReadFile(cacheDir + "/" + cacheKey(smt))
	if err != nil {
		return SolveResult{}, false
	}
	f := strings.SplitN(strings.TrimSpace(string(b)), " ", 3)
	if len(f) < 3 || f[0] != "unsat" {
		return SolveResult{}, false
	}
	var t float64
	fmt.Sscan(f[2], &t)
	return SolveResult{Status: "unsat", Solver: f[1], TimeS: t}, true
}

func cachePut(smt string, r SolveResult) {
	if cacheDir == "" || r.Status != "unsat" {
		return
	}
	os.MkdirAll(cacheDir, 0o755)
	os.WriteFile(cacheDir+"/"+cacheKey(smt), []byte(fmt.Sprintf("unsat %s %.3f\n", strings.ReplaceAll(r.Solver, " ", "_"), r.TimeS)), 0o644)
}

func solveAll(jobs []*job, timeoutS int, cross bool, workers int) {
	var uncached []*job
	for _, j := range jobs {
		if r, ok := cacheGet(j.ob.SMT); ok && !j.ob.MustSat && !cross {
			r.Solver += "(cached)"
			j.res = r
			os.WriteFile(j.path, []byte(j.ob.SMT), 0o644)
			continue
		}
		uncached = append(uncached, j)
	}
	solveAll1(uncached, timeoutS, cross, workers)
	for _, j := range uncached {
		if !j.ob.MustSat {
			cachePut(j.ob.SMT, j.res)
		}
	}
}

func solveAll1(jobs []*job, timeoutS int, cross bool, workers int) {
	// phase 1: every obligation gets one short attempt with z3-new, all cores busy
	var hard []*job
	var mu sync.Mutex
	runPool(jobs, workers, func(j *job) {
		if strings.Contains(j.ob.SMT, "(assert (not true))") && !j.ob.MustSat {
			j.res = SolveResult{Status: "unsat", Solver: "trivial"}
			return
		}
		if err := os.WriteFile(j.path, []byte(j.ob.SMT), 0o644); err != nil {
			j.res = SolveResult{Status: "error", Output: err.Error()}
			return
		}
		if j.ob.MustSat {
			// vacuity guards only need "not unsat": one short attempt
			j.res = runSolver(context.Background(), solvers[0], j.path, 2)
			return
		}
		// first attempt: the relevance-sliced script (unsat there is conclusive; anything else is not)
		if sl, ok := sliceSMT(j.ob.SMT); ok {
			j.sliced = sl
			sp := strings.TrimSuffix(j.path, ".smt2") + ".sliced.smt2"
			if os.WriteFile(sp, []byte(sl), 0o644) == nil {
				r := runSolver(context.Background(), solvers[0], sp, min(3, timeoutS))
				if r.Status == "unsat" {
					r.Solver += "+sliced"
					j.res = r
					return
				}
				if r.Status == "error" && illSorted(r.Output) {
					// the contract no longer type-checks against the changed code (e.g. a pointer compared with a
					// struct value): the solver rejects the script; this is deterministic, no later phase can help
					if r2 := runSolver(context.Background(), solvers[0], j.path, min(3, timeoutS)); r2.Status == "error" && illSorted(r2.Output) {
						j.res = r2
						return
					}
				}
			}
		}
		if j.ob.SMTHead != "" {
			hp := strings.TrimSuffix(j.path, ".smt2") + ".head.smt2"
			if os.WriteFile(hp, []byte(j.ob.SMTHead), 0o644) == nil {
				r := runSolver(context.Background(), solvers[0], hp, min(3, timeoutS))
				if r.Status == "unsat" {
					r.Solver += "+head-lemmas"
					j.res = r
					return
				}
			}
		}
		if j.ob.SMTAlt != "" {
			ap := strings.TrimSuffix(j.path, ".smt2") + ".alt.smt2"
			alt := j.ob.SMTAlt
			if sl, ok := sliceSMT(alt); ok {
				alt = sl
			}
			if os.WriteFile(ap, []byte(alt), 0o644) == nil {
				r := runSolver(context.Background(), solvers[0], ap, min(3, timeoutS))
				if r.Status == "unsat" {
					r.Solver += "+nohyps"
					j.res = r
					return
				}
			}
		}
		if (j.ob.Kind == "inv-pres" || j.ob.Kind == "post") && fitsRe.MatchString(j.ob.SMT) {
			j.res = SolveResult{Status: "unknown"}
		} else {
			j.res = runSolver(context.Background(), solvers[0], j.path, min(3, timeoutS))
		}
		if j.res.Status != "unsat" && j.res.Status != "sat" {
			mu.Lock()
			hard = append(hard, j)
			mu.Unlock()
		}
	})
	// phase 2: the rest is raced on all three solvers, few at a time so that each solver gets a core
	if os.Getenv("GOVC_TIMING") != "" {
		fmt.Fprintf(os.Stderr, "%s phase1 done, %d hard\n", time.Now().Format("15:04:05"), len(hard))
	}
	// phase 2a: case split on the "append fits in place" conditions (each case is much easier for the solvers'
	// quantifier instantiation than the ite-merged heap); all cases unsat <=> the obligation is unsat
	// phase 2a: a short race of all solver configurations
	var hard2 []*job
	runPool(hard, max(1, workers/len(solvers)), func(j *job) {
		r := raceSolvers(j.path, min(8, timeoutS))
		if r.Status == "unsat" || r.Status == "sat" {
			j.res = r
			return
		}
		mu.Lock()
		hard2 = append(hard2, j)
		mu.Unlock()
	})
	// the variant without lemma hypotheses gets a race of its own
	var hard3 []*job
	runPool(hard2, max(1, workers/len(solvers)), func(j *job) {
		if j.ob.SMTAlt != "" {
			ap := strings.TrimSuffix(j.path, ".smt2") + ".altfull.smt2"
			if os.WriteFile(ap, []byte(j.ob.SMTAlt), 0o644) == nil {
				r := raceSolvers(ap, min(8, timeoutS))
				if r.Status == "unsat" {
					r.Solver += "+nohyps"
					j.res = r
					return
				}
			}
		}
		mu.Lock()
		hard3 = append(hard3, j)
		mu.Unlock()
	})
	hard = hard3
	var harder []*job
	runPool(hard, max(1, workers/2), func(j *job) {
		if r, ok := splitSolve(j, timeoutS); ok {
			j.res = r
			return
		}
		mu.Lock()
		harder = append(harder, j)
		mu.Unlock()
	})
	if os.Getenv("GOVC_TIMING") != "" {
		fmt.Fprintf(os.Stderr, "%s phase2a done, %d harder\n", time.Now().Format("15:04:05"), len(harder))
	}
	// phase 2b: the rest is raced on all solver configurations, few at a time so that each gets a core
	runPool(harder, max(1, workers/len(solvers)), func(j *job) {
		j.res = raceSolvers(j.path, timeoutS)
	})
	// last resort against load on the machine: a handful of undecided obligations are retried one at a time, with
	// nothing else running and twice the timeout. (When many are undecided the tree is broken anyway.)
	var undecided []*job
	for _, j := range jobs {
		if !j.ob.MustSat && (j.res.Status == "timeout" || j.res.Status == "unknown") {
			undecided = append(undecided, j)
		}
	}
	if len(undecided) > 0 && len(undecided) <= 8 && os.Getenv("GOVC_NO_RETRY") == "" {
		for _, j := range undecided {
			r := raceSolvers(j.path, timeoutS*2)
			if r.Status == "unsat" {
				r.Solver += "+retry-alone"
				j.res = r
			} else if j.ob.SMTAlt != "" {
				ap := strings.TrimSuffix(j.path, ".smt2") + ".altfull.smt2"
				if os.WriteFile(ap, []byte(j.ob.SMTAlt), 0o644) == nil {
					if r := raceSolvers(ap, timeoutS*2); r.Status == "unsat" {
						r.Solver += "+nohyps+retry-alone"
						j.res = r
					}
				}
			}
		}
	}
	if cross {
		runPool(jobs, max(1, workers/2), func(j *job) {
			if j.res.Status == "unsat" && j.res.Solver != "trivial" && !j.ob.MustSat {
				for _, sp := range solvers {
					if sp.name == j.res.Solver {
						continue
					}
					r := runSolver(context.Background(), sp, j.path, timeoutS)
					if r.Status == "unsat" {
						j.res.Cross = sp.name
						break
					}
				}
			}
		})
	}
}

var fitsRe = regexp.MustCompile(`\(define-fun ((?:fits|dg)![0-9]+) \(\) Bool`)

// splitSolve: recursive case analysis over the fits!N symbols defined in the script: try to discharge the
// obligation under the current partial assignment; if that does not succeed quickly, split on the next symbol.
func splitSolve(j *job, timeoutS int) (SolveResult, bool) {
	ms := fitsRe.FindAllStringSubmatch(j.ob.SMT, -1)
	if len(ms) == 0 {
		return SolveResult{}, false
	}
	if len(ms) > 7 {
		ms = ms[len(ms)-7:] // the most recent case distinctions are the ones closest to the goal
	}
	total := 0.0
	cases := 0
	deadline := time.Now().Add(time.Duration(timeoutS*3) * time.Second)
	var rec func(depth int, extra string) bool
	rec = func(depth int, extra string) bool {
		if time.Now().After(deadline) {
			return false
		}
		smt := strings.Replace(j.ob.SMT, "(check-sat)", extra+"(check-sat)", 1)
		cases++
		path := strings.TrimSuffix(j.path, ".smt2") + fmt.Sprintf(".case%d.smt2", cases)
		if err := os.WriteFile(path, []byte(smt), 0o644); err != nil {
			return false
		}
		t := timeoutS
		if depth < len(ms) {
			t = min(timeoutS, 3) // inner nodes: a short attempt only
		}
		r := runSolver(context.Background(), solvers[0], path, t)
		total += r.TimeS
		if r.Status == "unsat" {
			return true
		}
		if depth == len(ms) {
			r2 := runSolver(context.Background(), solvers[3], path, timeoutS)
			total += r2.TimeS
			return r2.Status == "unsat"
		}
		sym := ms[depth][1]
		return rec(depth+1, extra+"(assert "+sym+")\n") && rec(depth+1, extra+"(assert (not "+sym+"))\n")
	}
	if rec(0, "") {
		return SolveResult{Status: "unsat", Solver: fmt.Sprintf("z3-new+case-split(%d)", cases), TimeS: total}, true
	}
	return SolveResult{}, false
}

func runPool(jobs []*job, workers int, f func(*job)) {
	var wg sync.WaitGroup
	ch := make(chan *job)
	for w := 0; w < workers; w++ {
		wg.Add(1)
		go func() {
			defer wg.Done()
			for j := range ch {
				f(j)
			}
		}()
	}
	for _, j := range jobs {
		ch <- j
	}
	close(ch)
	wg.Wait()
}

func raceSolvers(path string, timeoutS int) SolveResult {
	rctx, cancel := context.WithCancel(context.Background())
	defer cancel()
	ch := make(chan SolveResult, len(solvers))
	for _, sp := range solvers {
		sp := sp
		go func() { ch <- runSolver(rctx, sp, path, timeoutS) }()
	}
	var last SolveResult
	var outs []string
	for range solvers {
		r := <-ch
		outs = append(outs, r.Solver+": "+firstLine(r.Output))
		if r.Status == "unsat" || r.Status == "sat" {
			cancel()
			return r
		}
		if last.Status == "" || r.Status == "unknown" {
			last = r
		}
	}
	last.Output = strings.Join(outs, "\n")
	return last
}

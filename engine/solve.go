package main

// Discharging obligations: solvers are raced per obligation.

import (
	"fmt"
	"regexp"
	"bytes"
	"context"
	"os"
	"os/exec"
	"strings"
	"sync"
	"time"
)

type SolveResult struct {
	Status string // unsat, sat, unknown, timeout, error, trivial
	Solver string
	TimeS  float64
	Output string
	Cross  string // second solver agreeing (thorough tier)
}

type solverSpec struct {
	name string
	args func(path string, timeoutS int) []string
}

var solvers = []solverSpec{
	{"z3-new", func(p string, t int) []string { return []string{"z3-new", "-T:" + itoa(t), p} }},
	{"cvc5", func(p string, t int) []string {
		return []string{"cvc5", "--strings-exp", "--tlimit=" + itoa(t*1000), "--full-saturate-quant", p}
	}},
	{"z3", func(p string, t int) []string { return []string{"z3", "-T:" + itoa(t), p} }},
	{"z3-ematch", func(p string, t int) []string { return []string{"z3", "-T:" + itoa(t), "smt.mbqi=false", p} }},
	{"z3-new-ematch", func(p string, t int) []string { return []string{"z3-new", "-T:" + itoa(t), "smt.mbqi=false", p} }},
}

func itoa(i int) string { return fmtInt(i) }
func itoaUnused(i int) string {
	return strings.TrimSpace(strings.Replace(string(rune('0'+i%10)), "", "", 0))[:0] + fmtInt(i)
}

func fmtInt(i int) string {
	if i == 0 {
		return "0"
	}
	neg := i < 0
	if neg {
		i = -i
	}
	var b []byte
	for i > 0 {
		b = append([]byte{byte('0' + i%10)}, b...)
		i /= 10
	}
	if neg {
		b = append([]byte{'-'}, b...)
	}
	return string(b)
}

func runSolver(ctx context.Context, sp solverSpec, path string, timeoutS int) SolveResult {
	start := time.Now()
	argv := sp.args(path, timeoutS)
	cctx, cancel := context.WithTimeout(ctx, time.Duration(timeoutS+2)*time.Second)
	defer cancel()
	cmd := exec.CommandContext(cctx, argv[0], argv[1:]...)
	var out bytes.Buffer
	cmd.Stdout = &out
	cmd.Stderr = &out
	_ = cmd.Run()
	res := SolveResult{Solver: sp.name, TimeS: time.Since(start).Seconds(), Output: out.String()}
	first := ""
	for _, l := range strings.Split(out.String(), "\n") {
		l = strings.TrimSpace(l)
		if l == "" || strings.HasPrefix(l, "WARNING") {
			continue
		}
		first = l
		break
	}
	switch first {
	case "unsat", "sat", "unknown":
		res.Status = first
	case "timeout":
		res.Status = "timeout"
	default:
		if cctx.Err() != nil || strings.Contains(first, "timeout") || strings.Contains(out.String(), "interrupted by timeout") {
			res.Status = "timeout"
		} else {
			res.Status = "error"
		}
	}
	return res
}

// solve one obligation file: quick first attempt with z3-new, then race all three.
func solveFile(path string, timeoutS int, cross bool) SolveResult {
	ctx := context.Background()
	first := runSolver(ctx, solvers[0], path, min(3, timeoutS))
	if first.Status == "unsat" || first.Status == "sat" {
		if cross && first.Status == "unsat" {
			for _, sp := range solvers[1:] {
				r := runSolver(ctx, sp, path, timeoutS)
				if r.Status == "unsat" {
					first.Cross = sp.name
					break
				}
			}
		}
		return first
	}
	rctx, cancel := context.WithCancel(ctx)
	defer cancel()
	ch := make(chan SolveResult, len(solvers))
	for _, sp := range solvers {
		sp := sp
		go func() { ch <- runSolver(rctx, sp, path, timeoutS) }()
	}
	var last SolveResult
	var outs []string
	for range solvers {
		r := <-ch
		outs = append(outs, r.Solver+": "+firstLine(r.Output))
		if r.Status == "unsat" || r.Status == "sat" {
			cancel()
			return r
		}
		if last.Status == "" || r.Status == "unknown" {
			last = r
		}
	}
	last.Output = strings.Join(outs, "\n")
	if last.Status == "error" {
		// keep full output of an erroring solver for diagnosis
	}
	return last
}

func firstLine(s string) string {
	s = strings.TrimSpace(s)
	if i := strings.IndexByte(s, '\n'); i >= 0 {
		return s[:i]
	}
	return s
}

type job struct {
	ob   *Obligation
	path string
	res  SolveResult
}

func solveAll(jobs []*job, timeoutS int, cross bool, workers int) {
	// phase 1: every obligation gets one short attempt with z3-new, all cores busy
	var hard []*job
	var mu sync.Mutex
	runPool(jobs, workers, func(j *job) {
		if strings.Contains(j.ob.SMT, "(assert (not true))") && !j.ob.MustSat {
			j.res = SolveResult{Status: "unsat", Solver: "trivial"}
			return
		}
		if err := os.WriteFile(j.path, []byte(j.ob.SMT), 0o644); err != nil {
			j.res = SolveResult{Status: "error", Output: err.Error()}
			return
		}
		if j.ob.MustSat {
			// vacuity guards only need "not unsat": one short attempt
			j.res = runSolver(context.Background(), solvers[0], j.path, 2)
			return
		}
		if (j.ob.Kind == "inv-pres" || j.ob.Kind == "post") && fitsRe.MatchString(j.ob.SMT) {
			j.res = SolveResult{Status: "unknown"}
		} else {
			j.res = runSolver(context.Background(), solvers[0], j.path, min(3, timeoutS))
		}
		if j.res.Status != "unsat" && j.res.Status != "sat" {
			mu.Lock()
			hard = append(hard, j)
			mu.Unlock()
		}
	})
	// phase 2: the rest is raced on all three solvers, few at a time so that each solver gets a core
	// phase 2a: case split on the "append fits in place" conditions (each case is much easier for the solvers'
	// quantifier instantiation than the ite-merged heap); all cases unsat <=> the obligation is unsat
	var harder []*job
	runPool(hard, max(1, workers/2), func(j *job) {
		if r, ok := splitSolve(j, timeoutS); ok {
			j.res = r
			return
		}
		mu.Lock()
		harder = append(harder, j)
		mu.Unlock()
	})
	// phase 2b: the rest is raced on all solver configurations, few at a time so that each gets a core
	runPool(harder, max(1, workers/len(solvers)), func(j *job) {
		j.res = raceSolvers(j.path, timeoutS)
	})
	if cross {
		runPool(jobs, max(1, workers/2), func(j *job) {
			if j.res.Status == "unsat" && j.res.Solver != "trivial" && !j.ob.MustSat {
				for _, sp := range solvers {
					if sp.name == j.res.Solver {
						continue
					}
					r := runSolver(context.Background(), sp, j.path, timeoutS)
					if r.Status == "unsat" {
						j.res.Cross = sp.name
						break
					}
				}
			}
		})
	}
}

var fitsRe = regexp.MustCompile(`\(define-fun (fits![0-9]+) \(\) Bool`)

// splitSolve: case analysis over the fits!N symbols defined in the script (at most 3)
func splitSolve(j *job, timeoutS int) (SolveResult, bool) {
	ms := fitsRe.FindAllStringSubmatch(j.ob.SMT, -1)
	if len(ms) == 0 || len(ms) > 3 {
		return SolveResult{}, false
	}
	start := time.Now()
	total := 0.0
	for mask := 0; mask < 1<<len(ms); mask++ {
		var extra strings.Builder
		for i, m := range ms {
			if mask&(1<<i) != 0 {
				extra.WriteString("(assert " + m[1] + ")\n")
			} else {
				extra.WriteString("(assert (not " + m[1] + "))\n")
			}
		}
		smt := strings.Replace(j.ob.SMT, "(check-sat)", extra.String()+"(check-sat)", 1)
		path := strings.TrimSuffix(j.path, ".smt2") + fmt.Sprintf(".case%d.smt2", mask)
		if err := os.WriteFile(path, []byte(smt), 0o644); err != nil {
			return SolveResult{}, false
		}
		r := runSolver(context.Background(), solvers[0], path, timeoutS)
		if r.Status != "unsat" {
			r2 := runSolver(context.Background(), solvers[3], path, timeoutS)
			if r2.Status != "unsat" {
				return SolveResult{}, false
			}
			r = r2
		}
		total += r.TimeS
	}
	_ = start
	return SolveResult{Status: "unsat", Solver: "z3-new+case-split", TimeS: total}, true
}

func runPool(jobs []*job, workers int, f func(*job)) {
	var wg sync.WaitGroup
	ch := make(chan *job)
	for w := 0; w < workers; w++ {
		wg.Add(1)
		go func() {
			defer wg.Done()
			for j := range ch {
				f(j)
			}
		}()
	}
	for _, j := range jobs {
		ch <- j
	}
	close(ch)
	wg.Wait()
}

func raceSolvers(path string, timeoutS int) SolveResult {
	rctx, cancel := context.WithCancel(context.Background())
	defer cancel()
	ch := make(chan SolveResult, len(solvers))
	for _, sp := range solvers {
		sp := sp
		go func() { ch <- runSolver(rctx, sp, path, timeoutS) }()
	}
	var last SolveResult
	var outs []string
	for range solvers {
		r := <-ch
		outs = append(outs, r.Solver+": "+firstLine(r.Output))
		if r.Status == "unsat" || r.Status == "sat" {
			cancel()
			return r
		}
		if last.Status == "" || r.Status == "unknown" {
			last = r
		}
	}
	last.Output = strings.Join(outs, "\n")
	return last
}

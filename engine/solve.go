package main

// Discharging obligations: solvers are raced per obligation.

import (
	"bytes"
	"context"
	"os"
	"os/exec"
	"strings"
	"sync"
	"time"
)

type SolveResult struct {
	Status string // unsat, sat, unknown, timeout, error, trivial
	Solver string
	TimeS  float64
	Output string
	Cross  string // second solver agreeing (thorough tier)
}

type solverSpec struct {
	name string
	args func(path string, timeoutS int) []string
}

var solvers = []solverSpec{
	{"z3-new", func(p string, t int) []string { return []string{"z3-new", "-T:" + itoa(t), p} }},
	{"cvc5", func(p string, t int) []string {
		return []string{"cvc5", "--strings-exp", "--tlimit=" + itoa(t*1000), "--full-saturate-quant", p}
	}},
	{"z3", func(p string, t int) []string { return []string{"z3", "-T:" + itoa(t), p} }},
}

func itoa(i int) string { return fmtInt(i) }
func itoaUnused(i int) string {
	return strings.TrimSpace(strings.Replace(string(rune('0'+i%10)), "", "", 0))[:0] + fmtInt(i)
}

func fmtInt(i int) string {
	if i == 0 {
		return "0"
	}
	neg := i < 0
	if neg {
		i = -i
	}
	var b []byte
	for i > 0 {
		b = append([]byte{byte('0' + i%10)}, b...)
		i /= 10
	}
	if neg {
		b = append([]byte{'-'}, b...)
	}
	return string(b)
}

func runSolver(ctx context.Context, sp solverSpec, path string, timeoutS int) SolveResult {
	start := time.Now()
	argv := sp.args(path, timeoutS)
	cctx, cancel := context.WithTimeout(ctx, time.Duration(timeoutS+2)*time.Second)
	defer cancel()
	cmd := exec.CommandContext(cctx, argv[0], argv[1:]...)
	var out bytes.Buffer
	cmd.Stdout = &out
	cmd.Stderr = &out
	_ = cmd.Run()
	res := SolveResult{Solver: sp.name, TimeS: time.Since(start).Seconds(), Output: out.String()}
	first := strings.TrimSpace(out.String())
	if i := strings.IndexByte(first, '\n'); i >= 0 {
		first = strings.TrimSpace(first[:i])
	}
	switch first {
	case "unsat", "sat", "unknown":
		res.Status = first
	case "timeout":
		res.Status = "timeout"
	default:
		if cctx.Err() != nil || strings.Contains(first, "timeout") || strings.Contains(out.String(), "interrupted by timeout") {
			res.Status = "timeout"
		} else {
			res.Status = "error"
		}
	}
	return res
}

// solve one obligation file: quick first attempt with z3-new, then race all three.
func solveFile(path string, timeoutS int, cross bool) SolveResult {
	ctx := context.Background()
	first := runSolver(ctx, solvers[0], path, min(3, timeoutS))
	if first.Status == "unsat" || first.Status == "sat" {
		if cross && first.Status == "unsat" {
			for _, sp := range solvers[1:] {
				r := runSolver(ctx, sp, path, timeoutS)
				if r.Status == "unsat" {
					first.Cross = sp.name
					break
				}
			}
		}
		return first
	}
	rctx, cancel := context.WithCancel(ctx)
	defer cancel()
	ch := make(chan SolveResult, len(solvers))
	for _, sp := range solvers {
		sp := sp
		go func() { ch <- runSolver(rctx, sp, path, timeoutS) }()
	}
	var last SolveResult
	var outs []string
	for range solvers {
		r := <-ch
		outs = append(outs, r.Solver+": "+firstLine(r.Output))
		if r.Status == "unsat" || r.Status == "sat" {
			cancel()
			return r
		}
		if last.Status == "" || r.Status == "unknown" {
			last = r
		}
	}
	last.Output = strings.Join(outs, "\n")
	if last.Status == "error" {
		// keep full output of an erroring solver for diagnosis
	}
	return last
}

func firstLine(s string) string {
	s = strings.TrimSpace(s)
	if i := strings.IndexByte(s, '\n'); i >= 0 {
		return s[:i]
	}
	return s
}

type job struct {
	ob   *Obligation
	path string
	res  SolveResult
}

func solveAll(jobs []*job, timeoutS int, cross bool, workers int) {
	var wg sync.WaitGroup
	ch := make(chan *job)
	for w := 0; w < workers; w++ {
		wg.Add(1)
		go func() {
			defer wg.Done()
			for j := range ch {
				if strings.Contains(j.ob.SMT, "(assert (not true))") && !j.ob.MustSat {
					j.res = SolveResult{Status: "unsat", Solver: "trivial"}
					continue
				}
				if err := os.WriteFile(j.path, []byte(j.ob.SMT), 0o644); err != nil {
					j.res = SolveResult{Status: "error", Output: err.Error()}
					continue
				}
				j.res = solveFile(j.path, timeoutS, cross)
			}
		}()
	}
	for _, j := range jobs {
		ch <- j
	}
	close(ch)
	wg.Wait()
}

package main

// Frame conditions: `assigns` clauses, their checking at every store, and their use at calls and loop heads.
//
// assigns forms:   nothing | *p | p.F | elems(s) | elems(s).F | entries(m)
// All locations are evaluated in the function's pre-state.

import (
	"fmt"
	"go/types"
	"strings"

	"golang.org/x/tools/go/ssa"
)

type AssignSet struct {
	byKey map[string][]assignLoc
}

func (fx *FnCtx) resolveAssigns(fc *FuncContract, env map[string]SVal, st *State) *AssignSet {
	as := &AssignSet{byKey: map[string][]assignLoc{}}
	for _, e := range fc.AssignsL {
		fx.resolveAssign(as, e, env, st)
	}
	return as
}

func (fx *FnCtx) resolveAssign(as *AssignSet, e Expr, env map[string]SVal, st *State) {
	switch x := e.(type) {
	case *EUnary:
		if x.Op == "*" {
			p := fx.evalIn(x.X, env, st, st, nil)
			pt, ok := p.typ.Underlying().(*types.Pointer)
			if !ok {
				unsupported("assigns *%v: not a pointer", x.X)
			}
			key, _ := fx.tm.heapKey(pt.Elem())
			as.byKey[key] = append(as.byKey[key], assignLoc{kind: "cell", ref: p.v.t, field: -1, typ: pt.Elem()})
			return
		}
	case *ESel:
		// each(s).F / eachval(m).F: field F of every message a slice element / map value points to
		if c, ok := x.X.(*ECall); ok && (c.Fun == "each" || c.Fun == "eachval") && c.Recv == nil {
			fx.resolveEach(as, c, x.Name, env, st)
			return
		}
		// elems(s).F or p.F
		if c, ok := x.X.(*ECall); ok && c.Fun == "elems" && c.Recv == nil {
			s := fx.evalIn(c.Args[0], env, st, st, nil)
			stp := s.typ.Underlying().(*types.Slice)
			key, _ := fx.tm.heapKey(stp.Elem())
			fi := fieldIndex(stp.Elem(), x.Name)
			as.byKey[key] = append(as.byKey[key], assignLoc{kind: "slice", slice: s.v.t, field: fi, typ: stp.Elem()})
			return
		}
		p := fx.evalIn(x.X, env, st, st, nil)
		pt, ok := p.typ.Underlying().(*types.Pointer)
		if !ok {
			unsupported("assigns %v.%s: base is not a pointer", x.X, x.Name)
		}
		key, _ := fx.tm.heapKey(pt.Elem())
		fi := fieldIndex(pt.Elem(), x.Name)
		as.byKey[key] = append(as.byKey[key], assignLoc{kind: "cell", ref: p.v.t, field: fi, typ: pt.Elem()})
		return
	case *ECall:
		switch x.Fun {
		case "elems":
			s := fx.evalIn(x.Args[0], env, st, st, nil)
			stp := s.typ.Underlying().(*types.Slice)
			key, _ := fx.tm.heapKey(stp.Elem())
			loc := assignLoc{kind: "slice", slice: s.v.t, field: -1, typ: stp.Elem()}
			// elems(p.F): when p is nil there is no such location (a callee cannot write through it without panicking)
			if sel, ok := x.Args[0].(*ESel); ok {
				if b, ok := fx.tryEvalSV(sel.X, env, st); ok {
					if _, isPtr := b.typ.Underlying().(*types.Pointer); isPtr {
						loc.ref = b.v.t
					}
				}
			}
			as.byKey[key] = append(as.byKey[key], loc)
			return
		case "each", "eachval":
			fx.resolveEach(as, x, "", env, st)
			return
		case "since":
			// since(x, "T"): every cell of type T allocated after x (x: a pointer or map owned by the callee's state)
			x0 := fx.evalIn(x.Args[0], env, st, st, nil)
			tn, ok := x.Args[1].(*EStr)
			if !ok {
				unsupported("assigns since(x, \"T\")")
			}
			ev := &Evaluator{fx: fx, pkg: fx.pkg, bound: map[string]SVal{}, env: map[string]SVal{}}
			t, _ := ev.resolveType(tn.V)
			if t == nil {
				unsupported("assigns since: unknown type %s", tn.V)
			}
			key, _ := fx.tm.heapKey(t)
			as.byKey[key] = append(as.byKey[key], assignLoc{kind: "since", ref: x0.v.t, field: -1, typ: t})
			return
		case "slot":
			// slot(s): the one cell just past the end of s in its backing array (the target of an in-place append)
			sv := fx.evalIn(x.Args[0], env, st, st, nil)
			stp := sv.typ.Underlying().(*types.Slice)
			key, _ := fx.tm.heapKey(stp.Elem())
			as.byKey[key] = append(as.byKey[key], assignLoc{kind: "cell", ref: fmt.Sprintf("(mkref (sobj %s) (+ (soff %s) (slen %s)))", sv.v.t, sv.v.t, sv.v.t), field: -1, typ: stp.Elem()})
			return
		case "objcells":
			// objcells(p, "T"): every cell of type T inside the object p points to (storage owned by p: e.g. the
			// record buffer of an encoding/csv.Reader)
			x0 := fx.evalIn(x.Args[0], env, st, st, nil)
			tn, ok := x.Args[1].(*EStr)
			if !ok {
				unsupported("assigns objcells(p, \"T\")")
			}
			ev := &Evaluator{fx: fx, pkg: fx.pkg, bound: map[string]SVal{}, env: map[string]SVal{}}
			t, _ := ev.resolveType(tn.V)
			if t == nil {
				unsupported("assigns objcells: unknown type %s", tn.V)
			}
			key, _ := fx.tm.heapKey(t)
			as.byKey[key] = append(as.byKey[key], assignLoc{kind: "objcells", ref: x0.v.t, field: -1, typ: t})
			return
		case "entries":
			m := fx.evalIn(x.Args[0], env, st, st, nil)
			mi := fx.tm.mapInfo(m.typ.Underlying().(*types.Map))
			as.byKey[mi.HeapKey] = append(as.byKey[mi.HeapKey], assignLoc{kind: "cell", ref: m.v.t, field: -1, typ: m.typ})
			return
		}
	}
	unsupported("unsupported assigns location %v", e)
}

func (fx *FnCtx) resolveEach(as *AssignSet, c *ECall, field string, env map[string]SVal, st *State) {
	v := fx.evalIn(c.Args[0], env, st, st, nil)
	var pt *types.Pointer
	loc := assignLoc{field: -1}
	if c.Fun == "each" {
		stp, ok := v.typ.Underlying().(*types.Slice)
		if !ok {
			unsupported("assigns each(x): x is not a slice")
		}
		pt, ok = stp.Elem().Underlying().(*types.Pointer)
		if !ok {
			unsupported("assigns each(x): elements are not pointers")
		}
		ekey, esrt := fx.tm.heapKey(stp.Elem())
		loc.kind = "ptrelems"
		loc.slice = v.v.t
		loc.ref = fx.heap(st, ekey, esrt) // heap of the pointer cells, in the pre-state
	} else {
		mt, ok := v.typ.Underlying().(*types.Map)
		if !ok {
			unsupported("assigns eachval(x): x is not a map")
		}
		pt, ok = mt.Elem().Underlying().(*types.Pointer)
		if !ok {
			unsupported("assigns eachval(x): values are not pointers")
		}
		mi := fx.tm.mapInfo(mt)
		loc.kind = "mapvals"
		loc.slice = fmt.Sprintf("(select %s %s)", fx.heap(st, mi.HeapKey, mi.Sort), v.v.t)
		loc.ref = mi.Dom + " " + mi.Val + " " + mi.KeySort
	}
	loc.typ = pt.Elem()
	if field != "" {
		loc.field = fieldIndex(pt.Elem(), field)
	}
	key, _ := fx.tm.heapKey(pt.Elem())
	as.byKey[key] = append(as.byKey[key], loc)
}

func fieldIndex(t types.Type, name string) int {
	st, ok := t.Underlying().(*types.Struct)
	if !ok {
		unsupported("field %s of non-struct %s", name, t)
	}
	for i := 0; i < st.NumFields(); i++ {
		if st.Field(i).Name() == name {
			return i
		}
	}
	unsupported("no field %s in %s", name, t)
	return -1
}

// membership of ref r in the assignable set of heap `key`, for field fi (-1: any part / whole cell)
func (as *AssignSet) member(key string, r Term, fi int) Term {
	if as == nil {
		return "false"
	}
	var ds []Term
	for _, l := range as.byKey[key] {
		if l.field >= 0 && l.field != fi {
			continue
		}
		switch l.kind {
		case "cell":
			ds = append(ds, eq(r, l.ref))
		case "slice":
			ds = append(ds, fmt.Sprintf("(and (= (obj %s) (sobj %s)) (<= (soff %s) (idx %s)) (< (idx %s) (+ (soff %s) (scap %s))))", r, l.slice, l.slice, r, r, l.slice, l.slice))
		case "since":
			ds = append(ds, fmt.Sprintf("(> (obj %s) (obj %s))", r, l.ref))
		case "objcells":
			ds = append(ds, fmt.Sprintf("(= (obj %s) (obj %s))", r, l.ref))
		case "ptrelems":
			ds = append(ds, fmt.Sprintf("(exists ((ek Int)) (! (and (<= 0 ek) (< ek (slen %s)) (= %s (select %s (elemref %s ek)))) :pattern ((elemref %s ek))))", l.slice, r, l.ref, l.slice, l.slice))
		case "mapvals":
			p := strings.Fields(l.ref)
			ds = append(ds, fmt.Sprintf("(exists ((mk %s)) (! (and (select (%s %s) mk) (= %s (select (%s %s) mk))) :pattern ((select (%s %s) mk))))", p[2], p[0], l.slice, r, p[1], l.slice, p[0], l.slice))
		}
	}
	return or(ds...)
}

func (as *AssignSet) hasIndirect(key string) bool {
	if as == nil {
		return false
	}
	for _, l := range as.byKey[key] {
		if l.kind == "ptrelems" || l.kind == "mapvals" || l.kind == "since" {
			return true
		}
	}
	return false
}

func (as *AssignSet) hasFieldLevel(key string) bool {
	if as == nil {
		return false
	}
	for _, l := range as.byKey[key] {
		if l.field >= 0 {
			return true
		}
	}
	return false
}

// unchanged(H', H, key) outside the assignable set, for refs allocated no later than allocBound
func (fx *FnCtx) frameFact(as *AssignSet, key, srt string, typ types.Type, hNew, hOld, allocBound Term) Term {
	if hNew == hOld {
		return "true"
	}
	if !as.hasFieldLevel(key) {
		mem := as.member(key, "r", -1)
		return fmt.Sprintf("(forall ((r Ref)) (! (=> (and (<= (obj r) %s) (not %s)) (= (select %s r) (select %s r))) :pattern ((select %s r))))", allocBound, mem, hNew, hOld, hNew)
	}
	si := fx.tm.structInfo(typ)
	var parts []Term
	for i, f := range si.Fields {
		mem := as.member(key, "r", i)
		parts = append(parts, fmt.Sprintf("(=> (not %s) (= (%s (select %s r)) (%s (select %s r))))", mem, f.Sel, hNew, f.Sel, hOld))
	}
	return fmt.Sprintf("(forall ((r Ref)) (! (=> (<= (obj r) %s) (and %s)) :pattern ((select %s r))))", allocBound, strings.Join(parts, " "), hNew)
}

// havoc for a modular call whose callee has an assigns clause
func (fx *FnCtx) havocWithFrame(st, pre *State, m *Modset, as *AssignSet) {
	if m.top {
		// the callee's clause bounds what may change even if the syntactic modset is unknown: every known heap
		for _, k := range sortedKeys(fx.heapSort) {
			srt := fx.heapSort[k]
			old := fx.heap(pre, k, srt)
			h := fx.s.freshConst("Hc", "(Array Ref "+srt+")")
			st.heaps[k] = h
			if len(as.byKey[k]) == 0 {
				fx.s.assume("true", fmt.Sprintf("(forall ((r Ref)) (! (=> (<= (obj r) %s) (= (select %s r) (select %s r))) :pattern ((select %s r))))", pre.alloc, h, old, h))
			} else {
				fx.s.assume("true", fx.frameFact(as, k, srt, as.byKey[k][0].typ, h, old, pre.alloc))
			}
		}
		st.base = fx.s.fresh("cb") // untouched-so-far heaps become unknown
	} else {
		for _, k := range sortedKeys(m.cells) {
			e := m.cells[k]
			key, srt := fx.entrySort(e)
			old := fx.heap(pre, key, srt)
			if e.freshOnly {
				continue // see havocHeaps
			}
			if nh, ok := fx.storeFormHavoc(as, key, srt, e, old); ok {
				st.heaps[key] = nh
				continue
			}
			h := fx.s.freshConst("Hc", "(Array Ref "+srt+")")
			st.heaps[key] = h
			if as.hasIndirect(key) {
				// some locations are reached through slice elements / map values / allocation time. Per field:
				// a field named only by direct locations keeps the precise frame; a field named by an indirect
				// location may change anywhere.
				if _, isStruct := e.typ.Underlying().(*types.Struct); isStruct && !isTimeTime(e.typ) && !e.isMap {
					si := fx.tm.structInfo(e.typ)
					indirectAll := false
					indirectField := map[int]bool{}
					direct := &AssignSet{byKey: map[string][]assignLoc{}}
					for _, l := range as.byKey[key] {
						if l.kind == "ptrelems" || l.kind == "mapvals" || l.kind == "since" {
							if l.field < 0 {
								indirectAll = true
							} else {
								indirectField[l.field] = true
							}
						} else {
							direct.byKey[key] = append(direct.byKey[key], l)
						}
					}
					if !indirectAll {
						var parts []Term
						for i, f := range si.Fields {
							if indirectField[i] {
								continue
							}
							mem := direct.member(key, "r", i)
							parts = append(parts, fmt.Sprintf("(=> (not %s) (= (%s (select %s r)) (%s (select %s r))))", mem, f.Sel, h, f.Sel, old))
						}
						if len(parts) > 0 {
							fx.s.assume("true", fmt.Sprintf("(forall ((r Ref)) (! (=> (<= (obj r) %s) (and %s)) :pattern ((select %s r))))", pre.alloc, strings.Join(parts, " "), h))
						}
					}
				}
				continue
			}
			if len(as.byKey[key]) == 0 {
				fx.s.assume("true", fmt.Sprintf("(forall ((r Ref)) (! (=> (<= (obj r) %s) (= (select %s r) (select %s r))) :pattern ((select %s r))))", pre.alloc, h, old, h))
			} else {
				fx.s.assume("true", fx.frameFact(as, key, srt, e.typ, h, old, pre.alloc))
			}
		}
	}
	// ghost state is not covered by assigns clauses: what the callee may touch is havoced
	for k := range st.ghost {
		if m.top || m.ghost[k] {
			st.ghost[k] = fx.s.freshConst("ghost_"+k, fx.ghostSort(k))
		}
	}
	na := fx.s.freshConst("alloc", "Int")
	fx.s.assume("true", "(>= "+na+" "+pre.alloc+")")
	st.alloc = na
	if !m.top {
		for _, k := range sortedKeys(m.cells) {
			key, _ := fx.entrySort(m.cells[k])
			if h, ok := st.heaps[key]; ok && !m.cells[k].isMap {
				_, _ = key, h
			}
		}
	}
}

// the top-level function's own clause
func (fx *FnCtx) topAssigns() *AssignSet {
	return fx.assignSet
}

func (fx *FnCtx) frameProps() []string { return []string{"C06", "C18"} }

// every store into a cell that existed at function entry must be permitted by the assigns clause
func (fx *FnCtx) frameCheck(fr *Frame, ins ssa.Instruction, st *State, l *Loc, desc string) {
	if !fx.hasAssigns || fx.quiet > 0 {
		return
	}
	key, _ := fx.tm.heapKey(l.cell)
	if arr, ok := l.cell.Underlying().(*types.Array); ok && len(l.path) == 0 {
		key, _ = fx.tm.heapKey(arr.Elem())
	}
	fi := -1
	if len(l.path) > 0 && l.path[0].field >= 0 {
		fi = l.path[0].field
	}
	goal := or(fmt.Sprintf("(> (obj %s) %s)", l.base, fx.allocEntry), fx.assignSet.member(key, l.base, fi))
	fx.oblige("frame", fmt.Sprintf("%s/frame/%s", fr.obName(), desc), ins.String(), st, goal, ins.Pos(), fx.frameProps())
}

func (fx *FnCtx) frameCheckMap(fr *Frame, ins ssa.Instruction, st *State, m Term, mi *MapInfo, desc string) {
	if !fx.hasAssigns || fx.quiet > 0 {
		return
	}
	goal := or(fmt.Sprintf("(> (obj %s) %s)", m, fx.allocEntry), fx.assignSet.member(mi.HeapKey, m, -1))
	fx.oblige("frame", fmt.Sprintf("%s/frame/%s[…]", fr.obName(), desc), ins.String(), st, goal, ins.Pos(), fx.frameProps())
}

func (fx *FnCtx) frameCheckAppend(fr *Frame, ins ssa.Instruction, st *State, s Term, fits Term, et types.Type, desc string) {
	if !fx.hasAssigns || fx.quiet > 0 {
		return
	}
	key, _ := fx.tm.heapKey(et)
	// the cell written in place is (sobj, soff+len); it must be fresh or assignable
	r := fmt.Sprintf("(mkref (sobj %s) (+ (soff %s) (slen %s)))", s, s, s)
	goal := or(not(fits), fmt.Sprintf("(> (sobj %s) %s)", s, fx.allocEntry), fx.assignSet.member(key, r, -1))
	fx.oblige("frame", fmt.Sprintf("%s/frame/append(%s)", fr.obName(), desc), ins.String(), st, goal, ins.Pos(), fx.frameProps())
}

// a modular call: the callee's assignable set (in caller terms) must lie inside the caller's
func (fx *FnCtx) checkCalleeFrame(fr *Frame, ins ssa.Instruction, st *State, callee string, locs *AssignSet, m *Modset) {
	if !fx.hasAssigns || fx.quiet > 0 {
		return
	}
	if locs == nil {
		// callee without an assigns clause: acceptable only if it writes fresh memory only
		ok := !m.top
		for _, e := range m.cells {
			if !e.freshOnly {
				ok = false
			}
		}
		goal := "false"
		if ok {
			goal = "true"
		}
		fx.oblige("frame", fmt.Sprintf("%s/frame/call:%s", fr.obName(), callee), "callee has no assigns clause and may write inherited memory", st, goal, ins.Pos(), fx.frameProps())
		return
	}
	for _, key := range sortedKeys(locs.byKey) {
		for i, l := range locs.byKey[key] {
			var goal Term
			switch l.kind {
			case "cell":
				goal = or(fmt.Sprintf("(> (obj %s) %s)", l.ref, fx.allocEntry), eq(l.ref, "nilref"), fx.assignSet.member(key, l.ref, l.field))
			case "slice":
				nilBase := "false"
				if l.ref != "" {
					nilBase = eq(l.ref, "nilref")
				}
				goal = fmt.Sprintf("(or "+nilBase+" (> (sobj %s) %s) (= (scap %s) 0) (forall ((r Ref)) (=> (and (= (obj r) (sobj %s)) (<= (soff %s) (idx r)) (< (idx r) (+ (soff %s) (scap %s)))) %s)))",
					l.slice, fx.allocEntry, l.slice, l.slice, l.slice, l.slice, l.slice, fx.assignSet.member(key, "r", l.field))
			case "objcells":
				goal = fmt.Sprintf("(or (> (obj %s) %s) (forall ((r Ref)) (=> (= (obj r) (obj %s)) %s)))", l.ref, fx.allocEntry, l.ref, fx.assignSet.member(key, "r", l.field))
			case "since":
				goal = fmt.Sprintf("(or (>= (obj %s) %s) (forall ((r Ref)) (=> (> (obj r) (obj %s)) (or (> (obj r) %s) %s))))", l.ref, fx.allocEntry, l.ref, fx.allocEntry, fx.assignSet.member(key, "r", l.field))
			case "ptrelems":
				el := fmt.Sprintf("(select %s (elemref %s ek))", l.ref, l.slice)
				goal = fmt.Sprintf("(forall ((ek Int)) (! (=> (and (<= 0 ek) (< ek (slen %s))) (or (> (obj %s) %s) (= %s nilref) %s)) :pattern ((elemref %s ek))))", l.slice, el, fx.allocEntry, el, fx.assignSet.member(key, el, l.field), l.slice)
			case "mapvals":
				p := strings.Fields(l.ref)
				mv := fmt.Sprintf("(select (%s %s) mk)", p[1], l.slice)
				goal = fmt.Sprintf("(forall ((mk %s)) (! (=> (select (%s %s) mk) (or (> (obj %s) %s) (= %s nilref) %s)) :pattern ((select (%s %s) mk))))", p[2], p[0], l.slice, mv, fx.allocEntry, mv, fx.assignSet.member(key, mv, l.field), p[0], l.slice)
			}
			fx.oblige("frame", fmt.Sprintf("%s/frame/call:%s→%s.%d", fr.obName(), callee, sanitize(key), i), "callee's assigns within caller's", st, goal, ins.Pos(), fx.frameProps())
		}
	}
}

// after a havoc inside the top-level function: cells that existed at entry and are outside the assigns clause
// still hold their entry values (justified by the per-store frame obligations).
func (fx *FnCtx) frameAssumption(st, pre *State) {
	if !fx.hasAssigns {
		return
	}
	for _, k := range sortedKeys(st.heaps) {
		srt := fx.heapSort[k]
		h := st.heaps[k]
		old := fx.heap(fx.entry, k, srt)
		if h == old {
			continue
		}
		if ph, ok := pre.heaps[k]; ok && ph == h {
			continue // not havoced here: nothing new to say (and h may be a defined term, unusable as a pattern)
		}
		if !strings.HasPrefix(h, "Hh!") && !strings.HasPrefix(h, "Hc!") {
			continue
		}
		if len(fx.assignSet.byKey[k]) == 0 {
			fx.s.assume("true", fmt.Sprintf("(forall ((r Ref)) (! (=> (<= (obj r) %s) (= (select %s r) (select %s r))) :pattern ((select %s r))))", fx.allocEntry, h, old, h))
		} else {
			fx.s.assume("true", fx.frameFact(fx.assignSet, k, srt, fx.assignSet.byKey[k][0].typ, h, old, fx.allocEntry))
		}
	}
}

// storeFormHavoc: when the callee may assign only finitely many named cells of a heap, the heap after the call is
// the old heap with exactly those cells (or those fields of them) replaced by unknown values: no quantified frame
// is needed. Cells the callee allocates itself keep whatever (unconstrained) content the old array has there.
func (fx *FnCtx) storeFormHavoc(as *AssignSet, key, srt string, e *modEntry, old Term) (Term, bool) {
	locs := as.byKey[key]
	if len(locs) == 0 || len(locs) > 4 {
		return "", false
	}
	for _, l := range locs {
		if l.kind != "cell" {
			return "", false
		}
	}
	_, isStruct := e.typ.Underlying().(*types.Struct)
	isStruct = isStruct && !isTimeTime(e.typ) && !e.isMap
	h := old
	for _, l := range locs {
		var nv Term
		if l.field >= 0 && isStruct {
			si := fx.tm.structInfo(e.typ)
			var parts []string
			for i, f := range si.Fields {
				if i == l.field {
					parts = append(parts, fx.s.freshConst("fld", f.Sort))
				} else {
					parts = append(parts, fmt.Sprintf("(%s (select %s %s))", f.Sel, h, l.ref))
				}
			}
			nv = "(" + si.Ctor + " " + strings.Join(parts, " ") + ")"
		} else {
			nv = fx.s.freshConst("cellv", srt)
		}
		h = fmt.Sprintf("(store %s %s %s)", h, l.ref, nv)
	}
	return fx.s.define("Hs", "(Array Ref "+srt+")", h), true
}

func (fx *FnCtx) tryEvalSV(e Expr, env map[string]SVal, st *State) (v SVal, ok bool) {
	savedQuant := fx.s.inQuant
	defer func() {
		if r := recover(); r != nil {
			if _, isUns := r.(*UnsupportedError); !isUns {
				panic(r)
			}
			fx.s.inQuant = savedQuant
			ok = false
		}
	}()
	return fx.evalIn(e, env, st, st, nil), true
}

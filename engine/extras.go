package main

// Models that go beyond plain externals: ghost state (hash stream), sort facts, csv reader, etc.

import (
	"strings"
	"fmt"
	"go/types"

	"golang.org/x/tools/go/ssa"
)

type ghostFn func(ev *Evaluator, args []SVal) SVal

func registerGhosts(fx *FnCtx) {
	for _, g := range ghostInits {
		g(fx)
	}
	// hasExt(m, "E_X"), getExt(m, "E_X"): protobuf extension presence / value on message pointer m
	fx.ghostFuncs["hasExt"] = func(ev *Evaluator, args []SVal) SVal {
		fx.ufun("has_ext", []string{"Ref", "Int"}, "Bool")
		id := "extid_" + sanitize(strings.Trim(args[1].v.t, "\""))
		fx.s.global(id, fmt.Sprintf("(declare-fun %s () Int)", id))
		return SVal{v: Val{t: fmt.Sprintf("(and (not (= %s nilref)) (has_ext %s %s))", args[0].v.t, args[0].v.t, id)}, typ: boolT}
	}
	fx.ghostFuncs["getExtRef"] = func(ev *Evaluator, args []SVal) SVal {
		fx.ufun("get_ext", []string{"Ref", "Int"}, "Ref")
		id := "extid_" + sanitize(strings.Trim(args[1].v.t, "\""))
		fx.s.global(id, fmt.Sprintf("(declare-fun %s () Int)", id))
		return SVal{v: Val{t: fmt.Sprintf("(get_ext %s %s)", args[0].v.t, id)}, sort: "Ref"}
	}
	// tripIDMatches(s): the NYCT trip id regular expression matches s (uninterpreted; the per-pattern axiom gives
	// its consequences)
	fx.ghostFuncs["tripIDMatches"] = func(ev *Evaluator, args []SVal) SVal {
		fx.ufun("re_tripid_matches", []string{"String"}, "Bool")
		return SVal{v: Val{t: "(re_tripid_matches " + args[0].v.t + ")"}, typ: boolT}
	}
	// the elevator alert id regular expression: whether it matches, and its three groups (uninterpreted; the
	// per-pattern axiom in externals.go ties them to FindStringSubmatch)
	fx.ghostFuncs["elevatorMatches"] = func(ev *Evaluator, args []SVal) SVal {
		fx.ufun("re_elev_matches", []string{"String"}, "Bool")
		return SVal{v: Val{t: "(re_elev_matches " + args[0].v.t + ")"}, typ: boolT}
	}
	for i, n := range []string{"elevStation", "elevDirection", "elevElevator"} {
		i, n := i, n
		fx.ghostFuncs[n] = func(ev *Evaluator, args []SVal) SVal {
			f := fmt.Sprintf("re_elev_group%d", i+1)
			fx.ufun(f, []string{"String"}, "String")
			return SVal{v: Val{t: "(" + f + " " + args[0].v.t + ")"}, typ: stringT}
		}
	}
	// feedsLeft(): how many more feeds the journal's source will yield (ghost; a source is finite)
	fx.ghostFuncs["feedsLeft"] = func(ev *Evaluator, args []SVal) SVal {
		return SVal{v: Val{t: ev.st.ghost["srcrem"]}, typ: intT}
	}
	fx.ghostFuncs["pathJoin"] = func(ev *Evaluator, args []SVal) SVal {
		fx.ufun("path_join", []string{"String", "String"}, "String")
		return SVal{v: Val{t: fmt.Sprintf("(path_join %s %s)", args[0].v.t, args[1].v.t)}, typ: stringT}
	}
	fx.ghostFuncs["readable"] = func(ev *Evaluator, args []SVal) SVal {
		fx.ufun("fs_readable", []string{"String"}, "Bool")
		return SVal{v: Val{t: "(fs_readable " + args[0].v.t + ")"}, typ: boolT}
	}
	fx.ghostFuncs["fileContent"] = func(ev *Evaluator, args []SVal) SVal {
		fx.ufun("fs_content", []string{"String"}, "String")
		return SVal{v: Val{t: "(fs_content " + args[0].v.t + ")"}, typ: stringT}
	}
	fx.ghostFuncs["pbOK"] = func(ev *Evaluator, args []SVal) SVal {
		fx.ufun("pb_ok", []string{"String"}, "Bool")
		return SVal{v: Val{t: "(pb_ok " + args[0].v.t + ")"}, typ: boolT}
	}
	fx.ghostFuncs["bytesOf"] = func(ev *Evaluator, args []SVal) SVal {
		fx.s.global("bytes_of", "(declare-fun bytes_of (Int) String)")
		return SVal{v: Val{t: "(bytes_of (sobj " + args[0].v.t + "))"}, typ: stringT}
	}
	// hash stream ghost: stream() is the sequence of tokens emitted so far, pending() whether the buffer is non-empty
	fx.ghostFuncs["stream"] = func(ev *Evaluator, args []SVal) SVal {
		return SVal{v: Val{t: ev.st.ghost["hashL"]}, sort: "Stream"}
	}
	fx.ghostFuncs["pending"] = func(ev *Evaluator, args []SVal) SVal {
		return SVal{v: Val{t: ev.st.ghost["hashP"]}, typ: boolT}
	}
	// tok(L, x): L followed by the fixed-width token for the Go value x (tag = x's static type)
	fx.ghostFuncs["tok"] = func(ev *Evaluator, args []SVal) SVal {
		x := args[1]
		if x.typ == nil {
			unsupported("spec: tok() needs a Go-typed value")
		}
		t := x.typ
		if b, ok := t.(*types.Basic); ok && b.Info()&types.IsUntyped != 0 {
			unsupported("spec: tok() needs a typed value; convert it, e.g. uint64(x)")
		}
		bx := fx.box(x.v, t)
		return SVal{v: Val{t: fmt.Sprintf("(sfix %s (itag %s) (ival %s))", args[0].v.t, bx, bx)}, sort: "Stream"}
	}
	fx.ghostFuncs["raw"+"tok"] = func(ev *Evaluator, args []SVal) SVal {
		return SVal{v: Val{t: fmt.Sprintf("(sraw %s %s)", args[0].v.t, args[1].v.t)}, sort: "Stream"}
	}
	// remaining(r): how many more records the csv reader r will yield (ghost; finite input)
	fx.ghostFuncs["remaining"] = func(ev *Evaluator, args []SVal) SVal {
		return SVal{v: Val{t: "(select " + ev.st.ghost["csvrem"] + " " + args[0].v.t + ")"}, typ: intT}
	}
}

func init() {
	ghostInits = append(ghostInits, func(fx *FnCtx) {
		// nfields(r): the number of fields of every record of csv reader r
		fx.ghostFuncs["nfields"] = func(ev *Evaluator, args []SVal) SVal {
			fx.ufun("csv_nfields", []string{"Ref"}, "Int")
			return SVal{v: Val{t: "(csv_nfields " + args[0].v.t + ")"}, typ: intT}
		}
	})
}

var ghostInits []func(fx *FnCtx)

func initGhostState(fx *FnCtx, st *State) {
	st.ghost["csvrem"] = fx.s.declare("csvrem0", "(Array Ref Int)")
	fx.s.global("Stream", "(declare-datatypes ((Stream 0)) (((snil) (sfix (sprev Stream) (stag Int) (sval Int)) (sraw (rprev Stream) (rstr String)))))")
	fx.s.global("fixedsize", "(declare-fun fixedsize (Int) Bool)")
	st.ghost["srcrem"] = fx.s.declare("srcrem0", "Int")
	st.ghost["hashL"] = fx.s.declare("hashL0", "Stream")
	st.ghost["hashP"] = fx.s.declare("hashP0", "Bool")
}

func ghostSortOf(k string) string {
	switch k {
	case "csvrem":
		return "(Array Ref Int)"
	case "srcrem":
		return "Int"
	case "hashL":
		return "Stream"
	case "hashP":
		return "Bool"
	}
	return "Opaque"
}

func extraMods(eng *Engine, callee *ssa.Function, c *ssa.CallCommon, m *Modset) bool {
	switch callee.String() {
	case "(*encoding/csv.Reader).Read":
		m.add(types.Typ[types.String], false, false)
		m.ghost["csvrem"] = true
		return true
	case "google.golang.org/protobuf/proto.Unmarshal":
		// writes the (pre-allocated) root message and freshly allocated sub-messages
		if mi, ok := c.Args[1].(*ssa.MakeInterface); ok {
			if pt, ok := mi.X.Type().Underlying().(*types.Pointer); ok {
				m.add(pt.Elem(), false, false)
				return true
			}
		}
		m.top = true
		return true
	case "encoding/binary.Write":
		m.ghost["hashL"] = true
		m.ghost["hashP"] = true
		return true
	case "(*bytes.Buffer).Reset":
		m.ghost["hashP"] = true
		return true
	case "(*bytes.Buffer).Bytes", "path/filepath.Join", "os.ReadDir", "os.ReadFile", "(*text/template.Template).Execute", "bytes.NewReader", "archive/zip.NewReader":
		return true
	}
	return false
}

func (fr *Frame) extraExternal(ins ssa.Instruction, fn *ssa.Function, c *ssa.CallCommon, args []Val, st *State) ([]Val, bool) {
	fx := fr.fx
	switch fn.String() {
	case "google.golang.org/protobuf/proto.Unmarshal":
		return fr.protoUnmarshal(ins, c, args, st), true
	case "encoding/binary.Write":
		fx.trusted["binary.Write(buf, LittleEndian, v): for a fixed-size v appends exactly binary.Size(v) bytes, an injective function of v and of v's type, and returns nil; returns an error (and writes nothing) for other types; bool, sized integers, floats and named types of those are fixed-size, int and uint are not"] = true
		a := args[2].t
		st.ghost["hashL"] = fx.s.define("hashL", "Stream", fmt.Sprintf("(ite (fixedsize (itag %s)) (sfix %s (itag %s) (ival %s)) %s)", a, st.ghost["hashL"], a, a, st.ghost["hashL"]))
		st.ghost["hashP"] = fx.s.define("hashP", "Bool", fmt.Sprintf("(or %s (fixedsize (itag %s)))", st.ghost["hashP"], a))
		return []Val{{t: fx.errVal(st, "(fixedsize (itag "+a+"))")}}, true
	case "(*bytes.Buffer).Bytes":
		fx.trusted["(*bytes.Buffer).Bytes/Reset: the unread contents of the buffer / empties the buffer; never panic"] = true
		n := fx.s.freshConst("buflen", "Int")
		fx.s.assume(st.guard, "(>= "+n+" 0)")
		return []Val{{t: fmt.Sprintf("(mkslice (- 1) 0 %s %s)", n, n)}}, true
	case "(*text/template.Template).Execute":
		fx.trusted["(*text/template.Template).Execute(w, data): writes only to w, reads data by reflection without modifying it, returns an error instead of panicking (text/template recovers run-time panics of the functions it calls); what it writes is not modelled"] = true
		return fr.havocResults(c, st), true
	case "(*bytes.Buffer).Reset":
		st.ghost["hashP"] = "false"
		return nil, true
	case "path/filepath.Join":
		fx.trusted["filepath.Join(a, b): a function of its two arguments; never panics"] = true
		vals, ok := varargValues(c.Args[0])
		if !ok || len(vals) != 2 {
			return fr.havocResults(c, st), true
		}
		fx.ufun("path_join", []string{"String", "String"}, "String")
		return []Val{{t: fmt.Sprintf("(path_join %s %s)", fr.val(vals[0]).t, fr.val(vals[1]).t)}}, true
	case "os.ReadFile":
		fx.trusted["os.ReadFile(p): the file system does not change during a replay: the error is nil iff fs_readable(p), the content is fs_content(p) in a fresh slice; never panics"] = true
		fx.ufun("fs_readable", []string{"String"}, "Bool")
		fx.ufun("fs_content", []string{"String"}, "String")
		fx.s.global("bytes_of", "(declare-fun bytes_of (Int) String)")
		pth := args[0].t
		ref := fx.allocRef(st, "0")
		n := fmt.Sprintf("(str.len (fs_content %s))", pth)
		sl := fx.s.define("filebytes", "Slice", fmt.Sprintf("(ite (fs_readable %s) (mkslice (obj %s) 0 %s %s) nilslice)", pth, ref, n, n))
		fx.s.assume(st.guard, fmt.Sprintf("(= (bytes_of (obj %s)) (fs_content %s))", ref, pth))
		return []Val{{t: sl}, {t: fx.errVal(st, "(fs_readable "+pth+")")}}, true
	case "bytes.NewReader":
		fx.trusted["bytes.NewReader(b): a fresh non-nil reader over b; b is not modified; never panics"] = true
		ref := fx.allocRef(st, "0")
		return []Val{{t: ref}}, true
	case "archive/zip.NewReader":
		fx.trusted["zip.NewReader(r, n): (nil, error) or (a fresh non-nil *zip.Reader whose File slice holds non-nil, pairwise distinct *zip.File entries, nil); the input is only read; never panics"] = true
		res := fr.havocResults(c, st)
		rd := res[0].t
		fx.s.assume(st.guard, fmt.Sprintf("(= (= %s niliface) (not (= %s nilref)))", res[1].t, rd))
		rt := c.Signature().Results().At(0).Type().Underlying().(*types.Pointer).Elem()
		si := fx.tm.structInfo(rt)
		key, srt := fx.tm.heapKey(rt)
		hr := fx.heap(st, key, srt)
		for _, f := range si.Fields {
			if f.Name == "File" {
				fs := fmt.Sprintf("(%s (select %s %s))", f.Sel, hr, rd)
				et := f.Type.Underlying().(*types.Slice).Elem()
				ekey, esrt := fx.tm.heapKey(et)
				h := fx.heap(st, ekey, esrt)
				fx.s.assume(st.guard, fmt.Sprintf("(=> (not (= %s nilref)) (forall ((k Int)) (! (=> (and (<= 0 k) (< k (slen %s))) (not (= (select %s (elemref %s k)) nilref))) :pattern ((elemref %s k)))))", rd, fs, h, fs, fs))
			}
		}
		return res, true
	case "os.ReadDir":
		fx.trusted["os.ReadDir: returns (fresh slice of non-nil entries, error); never panics"] = true
		res := fr.havocResults(c, st)
		// entries are non-nil interface values
		et := c.Signature().Results().At(0).Type().Underlying().(*types.Slice).Elem()
		key, srt := fx.tm.heapKey(et)
		h := fx.heap(st, key, srt)
		fx.s.assume(st.guard, fmt.Sprintf("(forall ((k Int)) (! (=> (and (<= 0 k) (< k (slen %s))) (not (= (select %s (elemref %s k)) niliface))) :pattern ((elemref %s k))))", res[0].t, h, res[0].t, res[0].t))
		return res, true
	case "(*encoding/csv.Reader).Read":
		fx.trusted["(*encoding/csv.Reader).Read: returns an error, or a record with exactly csv_nfields(r) >= 1 fields when r.FieldsPerRecord >= 0 (0: as many as the first record) and with any number of fields when it is negative; the record is freshly allocated unless r.ReuseRecord is set, in which case it may share its backing array with records returned earlier by r (whose contents are then overwritten); a reader yields finitely many records; nothing else is modified; never panics"] = true
		r := args[0].t
		fr.safety("safe:nil", ins, fr.describe(c.Args[0])+".Read", st, not(eq(r, "nilref")))
		rt := c.Args[0].Type().Underlying().(*types.Pointer).Elem()
		si := fx.tm.structInfo(rt)
		key, srt := fx.tm.heapKey(rt)
		hr := fx.heap(st, key, srt)
		reuse := "false"
		fpr := "0"
		for _, f := range si.Fields {
			if f.Name == "ReuseRecord" {
				reuse = fmt.Sprintf("(%s (select %s %s))", f.Sel, hr, r)
			}
			if f.Name == "FieldsPerRecord" {
				fpr = fmt.Sprintf("(%s (select %s %s))", f.Sel, hr, r)
			}
		}
		fx.ufun("csv_nfields", []string{"Ref"}, "Int")
		fx.s.assume("true", fmt.Sprintf("(>= (csv_nfields %s) 1)", r))
		err := fx.s.freshConst("err", "Iface")
		okc := fx.s.define("readok", "Bool", eq(err, "niliface"))
		b := fx.s.freshConst("reused", "Bool")
		fresh := fx.allocRef(st, "0")
		recObj := fx.s.define("recobj", "Int", ite(and(reuse, b), "(obj "+r+")", "(obj "+fresh+")"))
		other := fx.havocVal("rec_on_err", c.Signature().Results().At(0).Type(), st)
		// FieldsPerRecord < 0: the reader does not check the number of fields; records may have any length
		anyLen := fx.s.freshConst("reclen", "Int")
		fx.s.assume("true", "(>= "+anyLen+" 0)")
		nf := fx.s.define("nfields", "Int", ite("(< "+fpr+" 0)", anyLen, "(csv_nfields "+r+")"))
		rec := fx.s.define("record", "Slice", ite(okc, fmt.Sprintf("(mkslice %s 0 %s %s)", recObj, nf, nf), other.t))
		skey, ssrt := fx.tm.heapKey(types.Typ[types.String])
		h := fx.heap(st, skey, ssrt)
		nh := fx.s.freshConst("Hcsv", "(Array Ref "+ssrt+")")
		fx.s.assume("true", fmt.Sprintf("(forall ((x Ref)) (! (=> (not (= (obj x) (obj %s))) (= (select %s x) (select %s x))) :pattern ((select %s x))))", r, nh, h, nh))
		st.heaps[skey] = nh
		if fx.hasAssigns && fx.quiet == 0 {
			goal := fmt.Sprintf("(or (> (obj %s) %s) (forall ((x Ref)) (=> (= (obj x) (obj %s)) %s)))", r, fx.allocEntry, r, fx.assignSet.member(skey, "x", -1))
			fx.oblige("frame", fr.obName()+"/frame/csv.Reader.Read", "the reader overwrites only its own record buffer", st, goal, ins.Pos(), fx.frameProps())
		}
		rem := st.ghost["csvrem"]
		fx.s.assume(st.guard, fmt.Sprintf("(=> %s (> (select %s %s) 0))", okc, rem, r))
		st.ghost["csvrem"] = fx.s.define("csvrem", "(Array Ref Int)", fmt.Sprintf("(store %s %s (ite %s (- (select %s %s) 1) (select %s %s)))", rem, r, okc, rem, r, rem, r))
		return []Val{{t: rec}, {t: err}}, true
	}
	return nil, false
}

func (fr *Frame) extraInvoke(ins ssa.Instruction, c *ssa.CallCommon, recv Val, args []Val, st *State) ([]Val, bool) {
	fx := fr.fx
	it := typeKey(c.Value.Type())
	if c.Method.Name() == "Next" && strings.HasSuffix(it, "journal.GtfsrtSource") {
		fx.trusted["GtfsrtSource.Next() (interface contract, assumed for user-supplied sources; DirectoryGtfsrtSource.Next is verified against its own contract): returns nil or a feed; yields finitely many feeds; does not modify memory BuildJournal holds; never panics"] = true
		res := fr.havocResults(c, st)
		rem := st.ghost["srcrem"]
		nrem := fx.s.freshConst("srcrem", "Int")
		fx.s.assume(st.guard, fmt.Sprintf("(and (>= %s 0) (=> (not (= %s nilref)) (and (> %s 0) (< %s %s))) (=> (= %s nilref) (= %s %s)))", nrem, res[0].t, rem, nrem, rem, res[0].t, nrem, rem))
		st.ghost["srcrem"] = nrem
		return res, true
	}
	if c.Method.Name() == "Write" && it == "hash.Hash" {
		fx.trusted["hash.Hash.Write(p): appends p to the hashed byte stream; never fails, never panics"] = true
		p := args[0].t
		fx.s.global("bytes_of", "(declare-fun bytes_of (Int) String)")
		isBuf := fmt.Sprintf("(= (sobj %s) (- 1))", p)
		// flush discipline: a direct write while fixed-width tokens are still buffered would reorder the stream
		fx.oblige("hash-order", fr.obName()+"/hash-order/"+fr.describe(c.Args[0]), "no direct write to the hash while tokens are buffered", st,
			or(isBuf, not(st.ghost["hashP"])), ins.Pos(), []string{"C13"})
		st.ghost["hashL"] = fx.s.define("hashL", "Stream", fmt.Sprintf("(ite %s %s (sraw %s (bytes_of (sobj %s))))", isBuf, st.ghost["hashL"], st.ghost["hashL"], p))
		return fr.havocResults(c, st), true
	}
	return nil, false
}

// a library routine writes the elements of slice s in place
func (fx *FnCtx) frameCheckSliceWrite(fr *Frame, ins ssa.Instruction, st *State, s Term, et types.Type, desc string) {
	if !fx.hasAssigns || fx.quiet > 0 {
		return
	}
	key, _ := fx.tm.heapKey(et)
	goal := fmt.Sprintf("(or (> (sobj %s) %s) (= (slen %s) 0) (forall ((r Ref)) (=> (and (= (obj r) (sobj %s)) (<= (soff %s) (idx r)) (< (idx r) (+ (soff %s) (slen %s)))) %s)))",
		s, fx.allocEntry, s, s, s, s, s, fx.assignSet.member(key, "r", -1))
	fx.oblige("frame", fmt.Sprintf("%s/frame/sort(%s)", fr.obName(), desc), ins.String(), st, goal, ins.Pos(), fx.frameProps())
}

// sortFacts: what sort.Slice(s, less) establishes (assumed contract of the library, given a comparator that is a
// strict weak order): the elements are permuted, and afterwards no later element is less than an earlier one. The
// comparator's meaning comes from the closure's own (verified) `comparator` clause; its precondition is checked
// for all index pairs in range.
func (fx *FnCtx) sortFacts(fr *Frame, c *ssa.CallCommon, s Term, et types.Type, hOld, hNew Term, st *State) {
	key, _ := fx.tm.heapKey(et)
	_ = key
	// permutation
	pf := fx.s.fresh("sortperm")
	fx.s.lines = append(fx.s.lines, fmt.Sprintf("(declare-fun %s (Int) Int)", pf))
	fx.s.assume(st.guard, fmt.Sprintf("(forall ((j Int)) (! (=> (and (<= 0 j) (< j (slen %s))) (and (<= 0 (%s j)) (< (%s j) (slen %s)) (= (select %s (elemref %s j)) (select %s (elemref %s (%s j)))))) :pattern ((select %s (elemref %s j)))))", s, pf, pf, s, hNew, s, hOld, s, pf, hNew, s))
	// the permutation is injective (so nothing is duplicated or lost); stated without creating new index terms
	fx.s.assume(st.guard, fmt.Sprintf("(forall ((a Int) (b Int)) (! (=> (and (<= 0 a) (< a b) (< b (slen %s))) (not (= (%s a) (%s b)))) :pattern ((%s a) (%s b))))", s, pf, pf, pf, pf))
	cv := fr.val(c.Args[1])
	if cv.clo == nil {
		return
	}
	fc := fx.eng.contractFor(cv.clo.fn)
	if fc == nil {
		return
	}
	env := fx.calleeEnv(cv.clo.fn, []Val{{t: "|a?|"}, {t: "|b?|"}}, cv.clo.bindings)
	// precondition of the comparator for every pair of indices in range (checked in the pre-sort state)
	if len(fc.Requires) > 0 {
		ia := fx.s.freshConst("cmp_i", "Int")
		ib := fx.s.freshConst("cmp_j", "Int")
		penv := fx.calleeEnv(cv.clo.fn, []Val{{t: ia}, {t: ib}}, cv.clo.bindings)
		rng := fmt.Sprintf("(and (<= 0 %s) (< %s (slen %s)) (<= 0 %s) (< %s (slen %s)))", ia, ia, s, ib, ib, s)
		pst := st.clone()
		pst.guard = fx.s.define("g", "Bool", and(st.guard, rng))
		for i, rq := range fc.Requires {
			t := fx.evalIn(rq.E, penv, pst, pst, nil).v.t
			fx.oblige("pre@call", fmt.Sprintf("%s/pre@call/%s/%d", fr.obName(), fx.eng.relName(cv.clo.fn), i+1), rq.Text+" (for every pair of indices sort.Slice may pass)", pst, t, c.Pos(), []string{"C05"})
		}
	}
	if fc.Comparator == nil {
		return
	}
	// sortedness: forall a < b in range: !less(b, a), in the post-sort state
	ev := &Evaluator{fx: fx, env: env, st: st, old: st, pkg: fx.pkg, bound: map[string]SVal{}}
	ps := cv.clo.fn.Params
	ev.bound[ps[0].Name()] = SVal{v: Val{t: "|b?|"}, typ: intT}
	ev.bound[ps[1].Name()] = SVal{v: Val{t: "|a?|"}, typ: intT}
	trigs := map[string][]Term{}
	ev.trigs = &trigs
	fx.s.inQuant++
	less := ev.eval(fc.Comparator.E).v.t
	fx.s.inQuant--
	pat := ""
	if ta, tb := trigs["|a?|"], trigs["|b?|"]; len(ta) > 0 && len(tb) > 0 {
		pat = " :pattern (" + ta[0] + " " + tb[0] + ")"
	}
	body := fmt.Sprintf("(=> (and (<= 0 |a?|) (< |a?| |b?|) (< |b?| (slen %s))) (not %s))", s, less)
	if pat != "" {
		body = "(! " + body + pat + ")"
	}
	fx.s.assume(st.guard, fmt.Sprintf("(forall ((|a?| Int) (|b?| Int)) %s)", body))
}


// proto.Unmarshal(b, m): assumed contract. err == nil iff pb_ok(bytes of b). On success the root message and
// everything reachable from it is as the proto2 schema demands: required fields are set, elements of repeated
// message fields are non-nil and pairwise distinct objects, and every sub-message was allocated by this call
// (nothing reachable from the result was reachable before, so nobody else can alias it). The input is not modified.
func (fr *Frame) protoUnmarshal(ins ssa.Instruction, c *ssa.CallCommon, args []Val, st *State) []Val {
	fx := fr.fx
	fx.trusted["proto.Unmarshal(b, m): err == nil iff pb_ok(b); on success required fields (proto2 'req') are non-nil, elements of repeated message fields are non-nil and pairwise distinct, all sub-messages are freshly allocated by the call; b is not modified; never panics"] = true
	mi, ok := c.Args[1].(*ssa.MakeInterface)
	if !ok {
		unsupported("proto.Unmarshal into a message that is not converted to an interface at the call site")
	}
	root := fr.val(mi.X).t
	rootT := mi.X.Type().Underlying().(*types.Pointer).Elem()
	fx.ufun("pb_ok", []string{"String"}, "Bool")
	fx.s.global("bytes_of", "(declare-fun bytes_of (Int) String)")
	okc := fmt.Sprintf("(pb_ok (bytes_of (sobj %s)))", args[0].t)
	a0 := st.alloc
	// the root cell is rewritten
	key, srt := fx.tm.heapKey(rootT)
	h := fx.heap(st, key, srt)
	nh := fx.s.freshConst("Hpb", "(Array Ref "+srt+")")
	fx.s.assume("true", fmt.Sprintf("(forall ((r Ref)) (! (=> (not (= r %s)) (= (select %s r) (select %s r))) :pattern ((select %s r))))", root, nh, h, nh))
	st.heaps[key] = nh
	a1 := fx.s.freshConst("alloc", "Int")
	fx.s.assume("true", "(>= "+a1+" "+a0+")")
	st.alloc = a1
	// schema facts for every message type reachable from the root
	seen := map[string]bool{}
	var visit func(t types.Type)
	visit = func(t types.Type) {
		k := typeKey(t)
		if seen[k] {
			return
		}
		seen[k] = true
		stt, ok := t.Underlying().(*types.Struct)
		if !ok {
			return
		}
		key, srt := fx.tm.heapKey(t)
		hh := fx.heap(st, key, srt)
		si := fx.tm.structInfo(t)
		window := fmt.Sprintf("(or (= r %s) (and (< %s (obj r)) (<= (obj r) %s)))", root, a0, a1)
		for i := 0; i < stt.NumFields(); i++ {
			f := stt.Field(i)
			tag := stt.Tag(i)
			if !strings.Contains(tag, "protobuf:") {
				continue
			}
			sel := fmt.Sprintf("(%s (select %s r))", si.Fields[i].Sel, hh)
			switch ft := f.Type().Underlying().(type) {
			case *types.Pointer:
				fresh := fmt.Sprintf("(or (= %s nilref) (and (< %s (obj %s)) (<= (obj %s) %s) (= (idx %s) 0)))", sel, a0, sel, sel, a1, sel)
				req := "true"
				if strings.Contains(tag, ",req,") {
					req = not(eq(sel, "nilref"))
				}
				fx.s.assume(st.guard, fmt.Sprintf("(=> %s (forall ((r Ref)) (! (=> %s (and %s %s)) :pattern ((select %s r)))))", okc, window, fresh, req, hh))
				if _, isMsg := ft.Elem().Underlying().(*types.Struct); isMsg {
					visit(ft.Elem())
				}
			case *types.Slice:
				pt, isPtr := ft.Elem().Underlying().(*types.Pointer)
				if !isPtr {
					continue
				}
				ekey, esrt := fx.tm.heapKey(ft.Elem())
				eh := fx.heap(st, ekey, esrt)
				el := func(k string) string { return fmt.Sprintf("(select %s (elemref %s %s))", eh, sel, k) }
				// the backing array is fresh, elements are non-nil fresh objects, pairwise distinct
				fx.s.assume(st.guard, fmt.Sprintf("(=> %s (forall ((r Ref)) (! (=> %s (or (= (scap %s) 0) (and (< %s (sobj %s)) (<= (sobj %s) %s)))) :pattern ((select %s r)))))", okc, window, sel, a0, sel, sel, a1, hh))
				fx.s.assume(st.guard, fmt.Sprintf("(=> %s (forall ((r Ref) (k Int)) (! (=> (and %s (<= 0 k) (< k (slen %s))) (and (not (= %s nilref)) (< %s (obj %s)) (<= (obj %s) %s) (= (idx %s) 0))) :pattern (%s))))", okc, window, sel, el("k"), a0, el("k"), el("k"), a1, el("k"), el("k")))
				fx.s.assume(st.guard, fmt.Sprintf("(=> %s (forall ((r Ref) (k Int) (j Int)) (! (=> (and %s (<= 0 k) (< k j) (< j (slen %s))) (not (= %s %s))) :pattern (%s %s))))", okc, window, sel, el("k"), el("j"), el("k"), el("j")))
				visit(pt.Elem())
			}
		}
	}
	visit(rootT)
	return []Val{{t: fx.errVal(st, okc)}}
}

package main

// Models that go beyond plain externals: ghost state (hash stream), sort facts, csv reader, etc.

import (
	"fmt"
	"go/types"

	"golang.org/x/tools/go/ssa"
)

type ghostFn func(ev *Evaluator, args []SVal) SVal

func registerGhosts(fx *FnCtx) {
	for _, g := range ghostInits {
		g(fx)
	}
	// remaining(r): how many more records the csv reader r will yield (ghost; finite input)
	fx.ghostFuncs["remaining"] = func(ev *Evaluator, args []SVal) SVal {
		return SVal{v: Val{t: "(select " + ev.st.ghost["csvrem"] + " " + args[0].v.t + ")"}, typ: intT}
	}
}

func init() {
	ghostInits = append(ghostInits, func(fx *FnCtx) {
		// nfields(r): the number of fields of every record of csv reader r
		fx.ghostFuncs["nfields"] = func(ev *Evaluator, args []SVal) SVal {
			fx.ufun("csv_nfields", []string{"Ref"}, "Int")
			return SVal{v: Val{t: "(csv_nfields " + args[0].v.t + ")"}, typ: intT}
		}
	})
}

var ghostInits []func(fx *FnCtx)

func initGhostState(fx *FnCtx, st *State) {
	st.ghost["csvrem"] = fx.s.declare("csvrem0", "(Array Ref Int)")
}

func ghostSortOf(k string) string {
	switch k {
	case "csvrem":
		return "(Array Ref Int)"
	}
	return "Opaque"
}

func extraMods(eng *Engine, callee *ssa.Function, c *ssa.CallCommon, m *Modset) bool {
	switch callee.String() {
	case "(*encoding/csv.Reader).Read":
		m.add(types.Typ[types.String], false, false)
		m.ghost["csvrem"] = true
		return true
	}
	return false
}

func (fr *Frame) extraExternal(ins ssa.Instruction, fn *ssa.Function, c *ssa.CallCommon, args []Val, st *State) ([]Val, bool) {
	fx := fr.fx
	switch fn.String() {
	case "(*encoding/csv.Reader).Read":
		fx.trusted["(*encoding/csv.Reader).Read: returns an error, or a record with exactly csv_nfields(r) >= 1 fields (FieldsPerRecord == 0: as many as the first record); the record is freshly allocated unless r.ReuseRecord is set, in which case it may share its backing array with records returned earlier by r (whose contents are then overwritten); a reader yields finitely many records; nothing else is modified; never panics"] = true
		r := args[0].t
		fr.safety("safe:nil", ins, fr.describe(c.Args[0])+".Read", st, not(eq(r, "nilref")))
		rt := c.Args[0].Type().Underlying().(*types.Pointer).Elem()
		si := fx.tm.structInfo(rt)
		key, srt := fx.tm.heapKey(rt)
		hr := fx.heap(st, key, srt)
		reuse := "false"
		for _, f := range si.Fields {
			if f.Name == "ReuseRecord" {
				reuse = fmt.Sprintf("(%s (select %s %s))", f.Sel, hr, r)
			}
		}
		fx.ufun("csv_nfields", []string{"Ref"}, "Int")
		fx.s.assume("true", fmt.Sprintf("(>= (csv_nfields %s) 1)", r))
		err := fx.s.freshConst("err", "Iface")
		okc := fx.s.define("readok", "Bool", eq(err, "niliface"))
		b := fx.s.freshConst("reused", "Bool")
		fresh := fx.allocRef(st, "0")
		recObj := fx.s.define("recobj", "Int", ite(and(reuse, b), "(obj "+r+")", "(obj "+fresh+")"))
		other := fx.havocVal("rec_on_err", c.Signature().Results().At(0).Type(), st)
		rec := fx.s.define("record", "Slice", ite(okc, fmt.Sprintf("(mkslice %s 0 (csv_nfields %s) (csv_nfields %s))", recObj, r, r), other.t))
		skey, ssrt := fx.tm.heapKey(types.Typ[types.String])
		h := fx.heap(st, skey, ssrt)
		nh := fx.s.freshConst("Hcsv", "(Array Ref "+ssrt+")")
		fx.s.assume("true", fmt.Sprintf("(forall ((x Ref)) (! (=> (not (= (obj x) (obj %s))) (= (select %s x) (select %s x))) :pattern ((select %s x))))", r, nh, h, nh))
		st.heaps[skey] = nh
		rem := st.ghost["csvrem"]
		fx.s.assume(st.guard, fmt.Sprintf("(=> %s (> (select %s %s) 0))", okc, rem, r))
		st.ghost["csvrem"] = fx.s.define("csvrem", "(Array Ref Int)", fmt.Sprintf("(store %s %s (ite %s (- (select %s %s) 1) (select %s %s)))", rem, r, okc, rem, r, rem, r))
		return []Val{{t: rec}, {t: err}}, true
	}
	return nil, false
}

func (fr *Frame) extraInvoke(ins ssa.Instruction, c *ssa.CallCommon, recv Val, args []Val, st *State) ([]Val, bool) {
	return nil, false
}

// a library routine writes the elements of slice s in place
func (fx *FnCtx) frameCheckSliceWrite(fr *Frame, ins ssa.Instruction, st *State, s Term, et types.Type, desc string) {
	if !fx.hasAssigns || fx.quiet > 0 {
		return
	}
	key, _ := fx.tm.heapKey(et)
	goal := fmt.Sprintf("(or (> (sobj %s) %s) (= (slen %s) 0) (forall ((r Ref)) (=> (and (= (obj r) (sobj %s)) (<= (soff %s) (idx r)) (< (idx r) (+ (soff %s) (slen %s)))) %s)))",
		s, fx.allocEntry, s, s, s, s, s, fx.assignSet.member(key, "r", -1))
	fx.oblige("frame", fmt.Sprintf("%s/frame/sort(%s)", fr.obName(), desc), ins.String(), st, goal, ins.Pos(), fx.frameProps())
}

func (fx *FnCtx) sortFacts(fr *Frame, c *ssa.CallCommon, s Term, et types.Type, hOld, hNew Term, st *State) {
}

package main

// Models that go beyond plain externals: ghost state (hash stream), sort facts, csv reader, etc.

import (
	"fmt"
	"go/types"

	"golang.org/x/tools/go/ssa"
)

type ghostFn func(ev *Evaluator, args []SVal) SVal

func registerGhosts(fx *FnCtx) {}

func initGhostState(fx *FnCtx, st *State) {}

func extraMods(eng *Engine, callee *ssa.Function, c *ssa.CallCommon, m *Modset) bool {
	return false
}

func (fr *Frame) extraExternal(ins ssa.Instruction, fn *ssa.Function, c *ssa.CallCommon, args []Val, st *State) ([]Val, bool) {
	return nil, false
}

func (fr *Frame) extraInvoke(ins ssa.Instruction, c *ssa.CallCommon, recv Val, args []Val, st *State) ([]Val, bool) {
	return nil, false
}

// a library routine writes the elements of slice s in place
func (fx *FnCtx) frameCheckSliceWrite(fr *Frame, ins ssa.Instruction, st *State, s Term, et types.Type, desc string) {
	if !fx.hasAssigns || fx.quiet > 0 {
		return
	}
	key, _ := fx.tm.heapKey(et)
	goal := fmt.Sprintf("(or (> (sobj %s) %s) (= (slen %s) 0) (forall ((r Ref)) (=> (and (= (obj r) (sobj %s)) (<= (soff %s) (idx r)) (< (idx r) (+ (soff %s) (slen %s)))) %s)))",
		s, fx.allocEntry, s, s, s, s, s, fx.assignSet.member(key, "r", -1))
	fx.oblige("frame", fmt.Sprintf("%s/frame/sort(%s)", fr.obName(), desc), ins.String(), st, goal, ins.Pos(), fx.frameProps())
}

func (fx *FnCtx) sortFacts(fr *Frame, c *ssa.CallCommon, s Term, et types.Type, hOld, hNew Term, st *State) {
}

package main

// Syntactic modification sets: which heap arrays (by cell type) a region of code may write.
// An entry is "fresh only" when every write to that heap in the region goes to a cell allocated in the region.

import (
	"strings"
	"go/types"

	"golang.org/x/tools/go/ssa"
)

type Modset struct {
	cells map[string]*modEntry
	top   bool
	ghost map[string]bool
	keys  map[string]bool // filled by users: materialised key set
}

type modEntry struct {
	typ       types.Type // cell type (for maps: the map type)
	isMap     bool
	freshOnly bool
	allFields bool         // whole cell may change
	fields    map[int]bool // otherwise: only these top-level struct fields
	// when every write to an older cell goes through one of these local variables (Allocs made outside the
	// region), only those cells change
	allocRoots map[ssa.Value]bool
	otherRoots bool
}

func newModset() *Modset {
	return &Modset{cells: map[string]*modEntry{}, ghost: map[string]bool{}, keys: map[string]bool{}}
}

func (m *Modset) add(t types.Type, isMap, fresh bool) { m.addField(t, isMap, fresh, -1, nil) }

// addField: field >= 0 restricts the write to that top-level field of a struct cell; root is the pointer the
// written address is derived from (nil if unknown)
func (m *Modset) addField(t types.Type, isMap, fresh bool, field int, root ssa.Value) {
	t = types.Unalias(t)
	var key string
	if isMap {
		key = "map:" + types.TypeString(t.Underlying(), nil)
	} else {
		key = typeKey(t)
	}
	e, ok := m.cells[key]
	if !ok {
		e = &modEntry{typ: t, isMap: isMap, freshOnly: true, fields: map[int]bool{}, allocRoots: map[ssa.Value]bool{}}
		m.cells[key] = e
	}
	if !fresh {
		switch a := root.(type) {
		case *ssa.Alloc:
			e.allocRoots[a] = true
		case *ssa.MakeMap:
			e.allocRoots[a] = true
		default:
			e.otherRoots = true
		}
	}
	if fresh {
		// writes to cells allocated in the region never affect older cells: they do not widen the field set
		return
	}
	e.freshOnly = false
	if field < 0 {
		e.allFields = true
	} else {
		e.fields[field] = true
	}
}

func (m *Modset) union(o *Modset, calleeFreshStays bool) {
	if o.top {
		m.top = true
	}
	for k, e := range o.cells {
		me, ok := m.cells[k]
		if !ok {
			me = &modEntry{typ: e.typ, isMap: e.isMap, freshOnly: true, fields: map[int]bool{}, allocRoots: map[ssa.Value]bool{}}
			m.cells[k] = me
		}
		if !e.freshOnly {
			me.otherRoots = true // writes made by a callee: targets not tracked
		}
		me.freshOnly = me.freshOnly && e.freshOnly
		me.allFields = me.allFields || e.allFields
		for f := range e.fields {
			me.fields[f] = true
		}
	}
	for k := range o.ghost {
		m.ghost[k] = true
	}
}

// firstField: for a store through &root.f0.f1..., the top-level field f0 of the root cell (-1: whole cell)
func firstField(addr ssa.Value) int {
	f := -1
	for {
		switch a := addr.(type) {
		case *ssa.FieldAddr:
			f = a.Field
			addr = a.X
			continue
		case *ssa.IndexAddr:
			if _, ok := a.X.Type().Underlying().(*types.Pointer); ok {
				if _, ok := a.X.(*ssa.FieldAddr); ok {
					addr = a.X
					continue
				}
			}
			return -1
		}
		return f
	}
}

// rootOf walks an address expression to the pointer it is derived from and reports the cell type written.
func rootOf(addr ssa.Value) (root ssa.Value, cell types.Type) {
	switch a := addr.(type) {
	case *ssa.FieldAddr:
		r, c := rootOf(a.X)
		return r, c
	case *ssa.IndexAddr:
		switch xt := a.X.Type().Underlying().(type) {
		case *types.Slice:
			return a.X, xt.Elem()
		case *types.Pointer:
			// pointer to array: interior array of a struct cell, or an array object whose elements live in the element heap
			if _, ok := a.X.(*ssa.FieldAddr); ok {
				return rootOf(a.X)
			}
			arr := xt.Elem().Underlying().(*types.Array)
			return a.X, arr.Elem()
		}
	}
	pt, ok := addr.Type().Underlying().(*types.Pointer)
	if !ok {
		return addr, addr.Type()
	}
	return addr, pt.Elem()
}

func isFreshRoot(v ssa.Value, region map[*ssa.BasicBlock]bool) bool {
	switch a := v.(type) {
	case *ssa.Alloc:
		return region == nil || region[a.Block()]
	case *ssa.MakeSlice:
		return region == nil || region[a.Block()]
	case *ssa.Slice:
		// slice of a freshly allocated array (varargs)
		return isFreshRoot(a.X, region)
	}
	return false
}

func (eng *Engine) instrMods(fn *ssa.Function, ins ssa.Instruction, region map[*ssa.BasicBlock]bool, m *Modset) {
	switch x := ins.(type) {
	case *ssa.Store:
		root, cell := rootOf(x.Addr)
		if arr, ok := cell.Underlying().(*types.Array); ok {
			cell = arr.Elem()
		}
		ff := firstField(x.Addr)
		if _, isStruct := cell.Underlying().(*types.Struct); !isStruct || isTimeTime(cell) {
			ff = -1
		}
		m.addField(cell, false, isFreshRoot(root, region), ff, root)
	case *ssa.Alloc:
		elem := x.Type().Underlying().(*types.Pointer).Elem()
		if arr, ok := elem.Underlying().(*types.Array); ok {
			m.add(arr.Elem(), false, true)
		} else {
			m.add(elem, false, true)
		}
	case *ssa.MakeSlice:
		m.add(x.Type().Underlying().(*types.Slice).Elem(), false, true)
	case *ssa.MakeMap:
		m.add(x.Type(), true, true)
	case *ssa.MapUpdate:
		m.addField(x.Map.Type(), true, isFreshMap(x.Map, region), -1, x.Map)
	case *ssa.Convert:
		if isByteSlice(x.Type()) {
			// []byte(s) allocates
		}
	case ssa.CallInstruction:
		eng.callMods(fn, x.Common(), region, m)
	}
}

func isFreshMap(v ssa.Value, region map[*ssa.BasicBlock]bool) bool {
	if mm, ok := v.(*ssa.MakeMap); ok {
		return region == nil || region[mm.Block()]
	}
	return false
}

func (eng *Engine) callMods(fn *ssa.Function, c *ssa.CallCommon, region map[*ssa.BasicBlock]bool, m *Modset) {
	if c.IsInvoke() {
		if c.Method.Name() == "Write" && typeKey(c.Value.Type()) == "hash.Hash" {
			m.ghost["hashL"] = true
			return
		}
		if c.Method.Name() == "Next" && strings.HasSuffix(typeKey(c.Value.Type()), "journal.GtfsrtSource") {
			m.ghost["srcrem"] = true
			return
		}
		impls := eng.implementations(c.Value.Type(), c.Method)
		if len(impls) == 0 {
			if !eng.externalInvokePure(c) {
				m.top = true
			}
			return
		}
		for _, f := range impls {
			m.union(eng.modset(f), true)
		}
		return
	}
	switch callee := c.Value.(type) {
	case *ssa.Builtin:
		switch callee.Name() {
		case "append":
			st := c.Args[0].Type().Underlying().(*types.Slice)
			m.add(st.Elem(), false, false)
		case "copy":
			if st, ok := c.Args[0].Type().Underlying().(*types.Slice); ok {
				m.add(st.Elem(), false, false)
			}
		case "delete":
			m.add(c.Args[0].Type(), true, false)
		}
	case *ssa.Function:
		eng.funcMods(callee, c, m)
	case *ssa.MakeClosure:
		eng.funcMods(callee.Fn.(*ssa.Function), c, m)
	default:
		m.top = true
	}
}

func (eng *Engine) funcMods(callee *ssa.Function, c *ssa.CallCommon, m *Modset) {
	if eng.isExternal(callee) {
		eng.externalMods(callee, c, m)
		return
	}
	m.union(eng.modset(callee), true)
	// closures created inside callee and called there are part of its body already (MakeClosure callee handled)
}

// modset of a whole function (memoised; recursion -> top)
func (eng *Engine) modset(fn *ssa.Function) *Modset {
	if m, ok := eng.modsets[fn]; ok {
		if m == nil {
			t := newModset()
			t.top = true
			return t
		}
		return m
	}
	eng.modsets[fn] = nil
	m := newModset()
	if len(fn.Blocks) == 0 {
		m.top = true
	}
	for _, b := range fn.Blocks {
		for _, ins := range b.Instrs {
			eng.instrMods(fn, ins, nil, m)
		}
	}
	// stores through free variables are writes to the enclosing function's cells: not fresh
	eng.modsets[fn] = m
	return m
}

func (eng *Engine) loopModset(fn *ssa.Function, li *loopInfo) *Modset {
	m := newModset()
	for b := range li.body {
		for _, ins := range b.Instrs {
			eng.instrMods(fn, ins, li.body, m)
		}
	}
	for k := range m.cells {
		m.keys[k] = true
	}
	return m
}

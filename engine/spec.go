package main

// Contract files: parsing of //@ lines and of the specification expression language.
//
// Grammar of a contracts file (comment-only Go file behind the `verif` build tag):
//
//	//@ func <name>                      -- start a function contract; <name> is the ssa name relative to the
//	//                                      package: F, (T).M, (*T).M, F$1, hashNumberPtr[uint32]
//	//@   props C01 C10                  -- properties whose proof this function's obligations belong to
//	//@   requires <expr>
//	//@   ensures [label] <expr>
//	//@   assigns nothing | <loc>, <loc> ...
//	//@   loop <n> invariant <expr>
//	//@   loop <n> decreases <expr>
//	//@   inline                         -- always inline this function at call sites (no modular contract)
//	//@ lemma <name> [props...] : <expr>
//	//@ pure func <name>(<a> <T>, ...) <R> = <expr>
//	//@ ghost func <name>(<a> <T>, ...) <R>
//	//@ canary <funcname> : <expr>       -- must-fail postcondition (vacuity guard)
//
// A line may be continued: any `//@` line that starts with at least 6 spaces after `//@` and does not start
// with a keyword is appended to the previous clause.

import (
	"fmt"
	"os"
	"strconv"
	"strings"
	"unicode"
)

type Clause struct {
	Kind  string // requires, ensures, invariant, decreases, assigns, lemma, canary
	Label string
	Loop  int
	Text  string
	E     Expr
	Line  int
	File  string
	Props []string
	Uses  []string
}

type FuncContract struct {
	PrefixOnly bool
	PrefixCut  string // the only unsupported-construct message a prefix-only function may be cut at
	Name     string
	Pkg      string
	Props    []string
	Requires []*Clause
	Ensures  []*Clause
	Assigns  *Clause // nil = unspecified
	AssignsL []Expr
	Invs     map[int][]*Clause
	Decr     map[int]*Clause
	Bounded  map[int]string // loop ordinal -> name of the bounded stand-in covering its termination
	TrustedEnsures []*Clause // assumed at call sites, not checked against the body (listed in the trusted base)
	Comparator *Clause // closures passed to sort.Slice: ret == Comparator(i, j)
	Steps    map[int][]*Clause // relational per-iteration obligations (checked on back edges only)
	Entries  map[int][]*Clause // obligations on loop entry only
	Inline   bool
	Canaries []*Clause
	File     string
	Line     int
	Trusted  bool
}

type SpecFunc struct {
	Name   string
	Pkg    string
	Params []SpecParam
	Ret    string
	Body   Expr // nil => uninterpreted
	Text   string
}

type SpecParam struct {
	Name string
	Type string
}

type Lemma struct {
	Name     string
	Pkg      string
	Props    []string
	Text     string
	E        Expr
	File     string
	Line     int
	MustFail bool
}

type Contracts struct {
	Funcs     map[string]*FuncContract // key: pkgpath + "." + name
	SpecFuncs map[string]*SpecFunc     // key: name (global namespace), pkg recorded
	Lemmas    []*Lemma
	Files     []string
	Scan      []string // lines mentioning assume/axiom/trusted
}

func newContracts() *Contracts {
	return &Contracts{Funcs: map[string]*FuncContract{}, SpecFuncs: map[string]*SpecFunc{}}
}

var clauseKeywords = map[string]bool{"func": true, "props": true, "requires": true, "ensures": true, "assigns": true,
	"loop": true, "inline": true, "lemma": true, "pure": true, "ghost": true, "canary": true, "trusted": true, "canarylemma": true, "comparator": true, "trusted-ensures": true, "prefix-only": true}

func (cs *Contracts) parseFile(path, pkgPath string) error {
	data, err := os.ReadFile(path)
	if err != nil {
		return err
	}
	cs.Files = append(cs.Files, path)
	lines := strings.Split(string(data), "\n")
	// 1. join continuation lines
	type rawLine struct {
		text string
		line int
	}
	var raws []rawLine
	for i, l := range lines {
		t := strings.TrimSpace(l)
		if !strings.HasPrefix(t, "//@") {
			continue
		}
		body := t[3:]
		trim := strings.TrimSpace(body)
		if trim == "" {
			continue
		}
		first := trim
		if j := strings.IndexAny(trim, " \t("); j >= 0 {
			first = trim[:j]
		}
		if !clauseKeywords[first] && len(raws) > 0 {
			raws[len(raws)-1].text += " " + trim
			continue
		}
		raws = append(raws, rawLine{trim, i + 1})
	}
	var cur *FuncContract
	for _, r := range raws {
		low := strings.ToLower(r.text)
		if strings.Contains(low, "assume") || strings.Contains(low, "axiom") || strings.Contains(low, "trusted") || strings.Contains(low, "prefix-only") {
			cs.Scan = append(cs.Scan, fmt.Sprintf("%s:%d: %s", path, r.line, r.text))
		}
		fields := strings.Fields(r.text)
		kw := fields[0]
		rest := strings.TrimSpace(r.text[len(kw):])
		mk := func(kind, text string) (*Clause, error) {
			c := &Clause{Kind: kind, Text: text, Line: r.line, File: path}
			// optional [label]
			if strings.HasPrefix(text, "[") {
				if j := strings.Index(text, "]"); j > 0 {
					c.Label = text[1:j]
					// [label using lemma1 lemma2]: of the step clauses of the loop only the named ones are offered as
					// lemmas when this clause is proved (fewer hypotheses: faster, more stable proofs)
					// [label also C19 C15]: the obligations of this clause also belong to the named properties (a
					// property whose functions rely on this postcondition at a call checks it too)
					if k := strings.Index(c.Label, " also "); k > 0 {
						c.Props = strings.Fields(c.Label[k+6:])
						c.Label = strings.TrimSpace(c.Label[:k])
					}
					if k := strings.Index(c.Label, " using "); k > 0 {
						c.Uses = strings.Fields(c.Label[k+7:])
						c.Label = strings.TrimSpace(c.Label[:k])
					}
					text = strings.TrimSpace(text[j+1:])
					c.Text = text
				}
			}
			e, err := parseExpr(text)
			if err != nil {
				return nil, fmt.Errorf("%s:%d: %v in %q", path, r.line, err, text)
			}
			c.E = e
			return c, nil
		}
		switch kw {
		case "func":
			cur = &FuncContract{Name: rest, Pkg: pkgPath, Invs: map[int][]*Clause{}, Decr: map[int]*Clause{}, Bounded: map[int]string{}, Steps: map[int][]*Clause{}, Entries: map[int][]*Clause{}, File: path, Line: r.line}
			key := pkgPath + "." + rest
			if _, dup := cs.Funcs[key]; dup {
				return fmt.Errorf("%s:%d: duplicate contract for %s", path, r.line, rest)
			}
			cs.Funcs[key] = cur
		case "props":
			if cur == nil {
				return fmt.Errorf("%s:%d: props outside func", path, r.line)
			}
			cur.Props = append(cur.Props, fields[1:]...)
		case "inline":
			cur.Inline = true
		case "trusted":
			cur.Trusted = true
		case "prefix-only":
			// the function contains a construct outside the subset: it is verified up to that construct only, the
			// rest of its body is not verified (reported as an unchecked assumption)
			cur.PrefixOnly = true
			cur.PrefixCut = strings.Trim(rest, "\" ")
			if cur.PrefixCut == "" {
				return fmt.Errorf("%s:%d: prefix-only needs the message of the one construct it may cut at", path, r.line)
			}
		case "requires", "ensures":
			if cur == nil {
				return fmt.Errorf("%s:%d: %s outside func", path, r.line, kw)
			}
			c, err := mk(kw, rest)
			if err != nil {
				return err
			}
			if kw == "requires" {
				cur.Requires = append(cur.Requires, c)
			} else {
				if c.Label == "" {
					c.Label = strconv.Itoa(len(cur.Ensures) + 1)
				}
				cur.Ensures = append(cur.Ensures, c)
			}
		case "trusted-ensures":
			if cur == nil {
				return fmt.Errorf("%s:%d: trusted-ensures outside func", path, r.line)
			}
			c, err := mk("ensures", rest)
			if err != nil {
				return err
			}
			cur.TrustedEnsures = append(cur.TrustedEnsures, c)
		case "comparator":
			if cur == nil {
				return fmt.Errorf("%s:%d: comparator outside func", path, r.line)
			}
			c, err := mk("comparator", rest)
			if err != nil {
				return err
			}
			cur.Comparator = c
			// it is also a postcondition of the closure: ret == <expr>
			ec := &Clause{Kind: "ensures", Label: "comparator", Text: "ret == (" + rest + ")", Line: r.line, File: path}
			ec.E = &EBinary{Op: "==", X: &EIdent{Name: "ret"}, Y: c.E}
			cur.Ensures = append(cur.Ensures, ec)
		case "canary":
			// canary <label> : expr   (attached to current func)
			if cur == nil {
				return fmt.Errorf("%s:%d: canary outside func", path, r.line)
			}
			c, err := mk("canary", rest)
			if err != nil {
				return err
			}
			if c.Label == "" {
				c.Label = strconv.Itoa(len(cur.Canaries) + 1)
			}
			cur.Canaries = append(cur.Canaries, c)
		case "assigns":
			if cur == nil {
				return fmt.Errorf("%s:%d: assigns outside func", path, r.line)
			}
			c := &Clause{Kind: "assigns", Text: rest, Line: r.line, File: path}
			cur.Assigns = c
			cur.AssignsL = nil
			if rest != "nothing" {
				for _, part := range splitTop(rest, ',') {
					e, err := parseExpr(strings.TrimSpace(part))
					if err != nil {
						return fmt.Errorf("%s:%d: %v in %q", path, r.line, err, part)
					}
					cur.AssignsL = append(cur.AssignsL, e)
				}
			}
		case "loop":
			if cur == nil || len(fields) < 3 {
				return fmt.Errorf("%s:%d: bad loop clause", path, r.line)
			}
			n, err := strconv.Atoi(fields[1])
			if err != nil {
				return fmt.Errorf("%s:%d: bad loop ordinal", path, r.line)
			}
			kind := fields[2]
			idx := strings.Index(r.text, kind)
			text := strings.TrimSpace(r.text[idx+len(kind):])
			if kind == "bounded" {
				cur.Bounded[n] = text
				continue
			}
			c, err := mk(kind, text)
			if err != nil {
				return err
			}
			c.Loop = n
			switch kind {
			case "invariant":
				if c.Label == "" {
					c.Label = strconv.Itoa(len(cur.Invs[n]) + 1)
				}
				cur.Invs[n] = append(cur.Invs[n], c)
			case "decreases":
				cur.Decr[n] = c
			case "step":
				if c.Label == "" {
					c.Label = strconv.Itoa(len(cur.Steps[n]) + 1)
				}
				cur.Steps[n] = append(cur.Steps[n], c)
			case "entry":
				if c.Label == "" {
					c.Label = strconv.Itoa(len(cur.Entries[n]) + 1)
				}
				cur.Entries[n] = append(cur.Entries[n], c)
			default:
				return fmt.Errorf("%s:%d: unknown loop clause %q", path, r.line, kind)
			}
		case "lemma", "canarylemma":
			cur = nil
			j := strings.Index(rest, ":")
			if j < 0 {
				return fmt.Errorf("%s:%d: lemma needs ':'", path, r.line)
			}
			head := strings.Fields(rest[:j])
			text := strings.TrimSpace(rest[j+1:])
			e, err := parseExpr(text)
			if err != nil {
				return fmt.Errorf("%s:%d: %v in %q", path, r.line, err, text)
			}
			cs.Lemmas = append(cs.Lemmas, &Lemma{Name: head[0], Pkg: pkgPath, Props: head[1:], Text: text, E: e, File: path, Line: r.line, MustFail: kw == "canarylemma"})
		case "pure", "ghost":
			cur = nil
			sf, err := parseSpecFunc(kw, rest)
			if err != nil {
				return fmt.Errorf("%s:%d: %v", path, r.line, err)
			}
			sf.Pkg = pkgPath
			cs.SpecFuncs[sf.Name] = sf
		default:
			return fmt.Errorf("%s:%d: unknown keyword %q", path, r.line, kw)
		}
	}
	return nil
}

func splitTop(s string, sep byte) []string {
	var out []string
	depth := 0
	start := 0
	inStr := false
	for i := 0; i < len(s); i++ {
		c := s[i]
		if inStr {
			if c == '\\' {
				i++
			} else if c == '"' {
				inStr = false
			}
			continue
		}
		switch c {
		case '"':
			inStr = true
		case '(', '[', '{':
			depth++
		case ')', ']', '}':
			depth--
		default:
			if c == sep && depth == 0 {
				out = append(out, s[start:i])
				start = i + 1
			}
		}
	}
	out = append(out, s[start:])
	return out
}

// pure func name(a T, b U) R = expr
func parseSpecFunc(kw, rest string) (*SpecFunc, error) {
	rest = strings.TrimSpace(rest)
	if !strings.HasPrefix(rest, "func") {
		return nil, fmt.Errorf("expected 'func' after %s", kw)
	}
	rest = strings.TrimSpace(rest[4:])
	lp := strings.Index(rest, "(")
	if lp < 0 {
		return nil, fmt.Errorf("expected '('")
	}
	name := strings.TrimSpace(rest[:lp])
	depth := 0
	rp := -1
	for i := lp; i < len(rest); i++ {
		if rest[i] == '(' {
			depth++
		} else if rest[i] == ')' {
			depth--
			if depth == 0 {
				rp = i
				break
			}
		}
	}
	if rp < 0 {
		return nil, fmt.Errorf("unbalanced parens")
	}
	sf := &SpecFunc{Name: name, Text: rest}
	params := strings.TrimSpace(rest[lp+1 : rp])
	if params != "" {
		for _, p := range splitTop(params, ',') {
			f := strings.Fields(strings.TrimSpace(p))
			if len(f) != 2 {
				return nil, fmt.Errorf("bad param %q", p)
			}
			sf.Params = append(sf.Params, SpecParam{f[0], f[1]})
		}
	}
	tail := strings.TrimSpace(rest[rp+1:])
	if eq := strings.Index(tail, "="); eq >= 0 && kw == "pure" {
		sf.Ret = strings.TrimSpace(tail[:eq])
		e, err := parseExpr(strings.TrimSpace(tail[eq+1:]))
		if err != nil {
			return nil, err
		}
		sf.Body = e
	} else {
		sf.Ret = tail
	}
	if sf.Ret == "" {
		return nil, fmt.Errorf("missing return type")
	}
	return sf, nil
}

// ---------------------------------------------------------------------------------------------
// Expression language

type Expr interface{}

type (
	EIdent struct{ Name string }
	EInt   struct{ V string }
	EStr   struct{ V string }
	EBool  struct{ V bool }
	ENil   struct{}
	EUnary struct {
		Op string
		X  Expr
	}
	EBinary struct {
		Op   string
		X, Y Expr
	}
	ECall struct {
		Fun  string
		Recv Expr // non-nil for method-style calls x.f(args)
		Args []Expr
	}
	ESel struct {
		X    Expr
		Name string
	}
	EIndex struct{ X, I Expr }
	ESlice struct{ X, Lo, Hi Expr }
	EQuant struct {
		Forall bool
		Vars   []SpecParam
		Body   Expr
	}
	EOld  struct{ X Expr }
	EPre  struct{ X Expr }
	ECond struct{ C, A, B Expr }
)

type tok struct {
	kind string // id, int, str, op, eof
	text string
}

func lex(s string) ([]tok, error) {
	var toks []tok
	i := 0
	for i < len(s) {
		c := s[i]
		switch {
		case c == ' ' || c == '\t' || c == '\n':
			i++
		case c == '/' && i+1 < len(s) && s[i+1] == '/':
			i = len(s)
		case unicode.IsLetter(rune(c)) || c == '_' || c == '$':
			j := i + 1
			hash := false
			for j < len(s) && (unicode.IsLetter(rune(s[j])) || unicode.IsDigit(rune(s[j])) || s[j] == '_' || s[j] == '$' || s[j] == '#' || (hash && (s[j] == '*' || s[j] == '[' || s[j] == ']'))) {
				if s[j] == '#' {
					hash = true // name#Type: the variable of that name whose Go type is Type (disambiguates shadowed names)
				}
				j++
			}
			toks = append(toks, tok{"id", s[i:j]})
			i = j
		case unicode.IsDigit(rune(c)):
			j := i + 1
			for j < len(s) && (unicode.IsDigit(rune(s[j])) || s[j] == '_') {
				j++
			}
			toks = append(toks, tok{"int", strings.ReplaceAll(s[i:j], "_", "")})
			i = j
		case c == '"':
			j := i + 1
			for j < len(s) && s[j] != '"' {
				if s[j] == '\\' {
					j++
				}
				j++
			}
			if j >= len(s) {
				return nil, fmt.Errorf("unterminated string")
			}
			v, err := strconv.Unquote(s[i : j+1])
			if err != nil {
				return nil, err
			}
			toks = append(toks, tok{"str", v})
			i = j + 1
		case c == '\'':
			j := i + 1
			for j < len(s) && s[j] != '\'' {
				if s[j] == '\\' {
					j++
				}
				j++
			}
			if j >= len(s) {
				return nil, fmt.Errorf("unterminated char")
			}
			v, _, _, err := strconv.UnquoteChar(s[i+1:j], '\'')
			if err != nil {
				return nil, err
			}
			toks = append(toks, tok{"int", strconv.Itoa(int(v))})
			i = j + 1
		default:
			ops := []string{"<==>", "==>", "::", "==", "!=", "<=", ">=", "&&", "||", "(", ")", "[", "]", "{", "}", ",", ".", ":", "<", ">", "+", "-", "*", "/", "%", "!", "&", "?"}
			matched := false
			for _, op := range ops {
				if strings.HasPrefix(s[i:], op) {
					toks = append(toks, tok{"op", op})
					i += len(op)
					matched = true
					break
				}
			}
			if !matched {
				return nil, fmt.Errorf("unexpected character %q", c)
			}
		}
	}
	toks = append(toks, tok{"eof", ""})
	return toks, nil
}

type parser struct {
	toks []tok
	pos  int
}

func parseExpr(s string) (Expr, error) {
	toks, err := lex(s)
	if err != nil {
		return nil, err
	}
	p := &parser{toks: toks}
	e, err := p.expr(0)
	if err != nil {
		return nil, err
	}
	if p.peek().kind != "eof" {
		return nil, fmt.Errorf("unexpected token %q", p.peek().text)
	}
	return e, nil
}

func (p *parser) peek() tok { return p.toks[p.pos] }
func (p *parser) next() tok { t := p.toks[p.pos]; p.pos++; return t }
func (p *parser) isOp(s string) bool {
	t := p.peek()
	return t.kind == "op" && t.text == s
}
func (p *parser) expect(s string) error {
	if !p.isOp(s) {
		return fmt.Errorf("expected %q, got %q", s, p.peek().text)
	}
	p.pos++
	return nil
}

var binPrec = map[string]int{"<==>": 1, "==>": 2, "||": 3, "&&": 4, "==": 5, "!=": 5, "<": 5, "<=": 5, ">": 5, ">=": 5, "+": 6, "-": 6, "*": 7, "/": 7, "%": 7}

func (p *parser) expr(minPrec int) (Expr, error) {
	// quantifiers bind loosest
	if t := p.peek(); t.kind == "id" && (t.text == "forall" || t.text == "exists") {
		p.next()
		var vars []SpecParam
		for {
			var names []string
			for {
				n := p.next()
				if n.kind != "id" {
					return nil, fmt.Errorf("expected quantified variable name")
				}
				names = append(names, n.text)
				if p.isOp(",") {
					p.next()
					continue
				}
				break
			}
			// type: tokens until '::' or ','
			ty := ""
			for !p.isOp("::") && !p.isOp(",") && p.peek().kind != "eof" {
				ty += p.next().text
			}
			// names preceding share the type; but "a, b T" parsed names=[a,b]... handle "x T, y U" too
			for _, n := range names {
				vars = append(vars, SpecParam{n, ty})
			}
			if p.isOp(",") {
				p.next()
				continue
			}
			break
		}
		if err := p.expect("::"); err != nil {
			return nil, err
		}
		body, err := p.expr(0)
		if err != nil {
			return nil, err
		}
		return &EQuant{Forall: t.text == "forall", Vars: vars, Body: body}, nil
	}
	lhs, err := p.unary()
	if err != nil {
		return nil, err
	}
	for {
		t := p.peek()
		if t.kind != "op" {
			break
		}
		if t.text == "?" && minPrec == 0 {
			p.next()
			a, err := p.expr(1)
			if err != nil {
				return nil, err
			}
			if err := p.expect(":"); err != nil {
				return nil, err
			}
			b, err := p.expr(0)
			if err != nil {
				return nil, err
			}
			lhs = &ECond{lhs, a, b}
			continue
		}
		prec, ok := binPrec[t.text]
		if !ok || prec < minPrec {
			break
		}
		p.next()
		var rhs Expr
		if t.text == "==>" {
			rhs, err = p.expr(prec) // right assoc
		} else {
			rhs, err = p.expr(prec + 1)
		}
		if err != nil {
			return nil, err
		}
		lhs = &EBinary{t.text, lhs, rhs}
	}
	return lhs, nil
}

func (p *parser) unary() (Expr, error) {
	t := p.peek()
	if t.kind == "op" && (t.text == "!" || t.text == "-" || t.text == "*" || t.text == "&") {
		p.next()
		x, err := p.unary()
		if err != nil {
			return nil, err
		}
		return &EUnary{t.text, x}, nil
	}
	return p.postfix()
}

func (p *parser) postfix() (Expr, error) {
	x, err := p.primary()
	if err != nil {
		return nil, err
	}
	for {
		switch {
		case p.isOp("."):
			p.next()
			n := p.next()
			if n.kind != "id" && n.kind != "int" {
				return nil, fmt.Errorf("expected field name after '.'")
			}
			if p.isOp("(") {
				args, err := p.args()
				if err != nil {
					return nil, err
				}
				x = &ECall{Fun: n.text, Recv: x, Args: args}
			} else {
				x = &ESel{x, n.text}
			}
		case p.isOp("["):
			p.next()
			var lo, hi Expr
			if !p.isOp(":") {
				lo, err = p.expr(0)
				if err != nil {
					return nil, err
				}
			}
			if p.isOp(":") {
				p.next()
				if !p.isOp("]") {
					hi, err = p.expr(0)
					if err != nil {
						return nil, err
					}
				}
				if err := p.expect("]"); err != nil {
					return nil, err
				}
				x = &ESlice{x, lo, hi}
			} else {
				if err := p.expect("]"); err != nil {
					return nil, err
				}
				x = &EIndex{x, lo}
			}
		default:
			return x, nil
		}
	}
}

func (p *parser) args() ([]Expr, error) {
	if err := p.expect("("); err != nil {
		return nil, err
	}
	var args []Expr
	for !p.isOp(")") {
		a, err := p.expr(0)
		if err != nil {
			return nil, err
		}
		args = append(args, a)
		if p.isOp(",") {
			p.next()
		} else {
			break
		}
	}
	if err := p.expect(")"); err != nil {
		return nil, err
	}
	return args, nil
}

func (p *parser) primary() (Expr, error) {
	t := p.next()
	switch t.kind {
	case "int":
		return &EInt{t.text}, nil
	case "str":
		return &EStr{t.text}, nil
	case "id":
		switch t.text {
		case "true":
			return &EBool{true}, nil
		case "false":
			return &EBool{false}, nil
		case "nil":
			return &ENil{}, nil
		case "old":
			if err := p.expect("("); err != nil {
				return nil, err
			}
			x, err := p.expr(0)
			if err != nil {
				return nil, err
			}
			if err := p.expect(")"); err != nil {
				return nil, err
			}
			return &EOld{x}, nil
		case "pre":
			if err := p.expect("("); err != nil {
				return nil, err
			}
			x, err := p.expr(0)
			if err != nil {
				return nil, err
			}
			if err := p.expect(")"); err != nil {
				return nil, err
			}
			return &EPre{x}, nil
		}
		if p.isOp("(") {
			args, err := p.args()
			if err != nil {
				return nil, err
			}
			return &ECall{Fun: t.text, Args: args}, nil
		}
		return &EIdent{t.text}, nil
	case "op":
		if t.text == "(" {
			x, err := p.expr(0)
			if err != nil {
				return nil, err
			}
			if err := p.expect(")"); err != nil {
				return nil, err
			}
			return x, nil
		}
	}
	return nil, fmt.Errorf("unexpected token %q", t.text)
}

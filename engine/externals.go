package main

// Trusted table of externals: the contracts we ASSUME for standard-library and third-party functions.
// Every entry used by a run is copied into that run's evidence under trusted_base.

import (
	"fmt"
	"go/constant"
	"go/types"
	"regexp"
	"strings"

	"golang.org/x/tools/go/ssa"
)

type extFn func(fr *Frame, ins ssa.Instruction, c *ssa.CallCommon, args []Val, st *State) []Val

type extEntry struct {
	doc  string
	fn   extFn
	mods func(eng *Engine, c *ssa.CallCommon, m *Modset)
}

var externals map[string]*extEntry

func (fx *FnCtx) useExt(name string, e *extEntry) {
	fx.trusted[name+": "+e.doc] = true
}

func noEffect(doc string) *extEntry {
	return &extEntry{doc: doc, fn: func(fr *Frame, ins ssa.Instruction, c *ssa.CallCommon, args []Val, st *State) []Val {
		return fr.havocResults(c, st)
	}}
}

func (fr *Frame) havocResults(c *ssa.CallCommon, st *State) []Val {
	sig := c.Signature()
	var res []Val
	for i := 0; i < sig.Results().Len(); i++ {
		res = append(res, fr.fx.havocVal(fmt.Sprintf("ext_r%d", i), sig.Results().At(i).Type(), st))
	}
	return res
}

// varargValues recovers the static element values of a varargs slice built in the same block.
func varargValues(v ssa.Value) ([]ssa.Value, bool) {
	if c, ok := v.(*ssa.Const); ok && c.Value == nil {
		return nil, true
	}
	sl, ok := v.(*ssa.Slice)
	if !ok {
		return nil, false
	}
	al, ok := sl.X.(*ssa.Alloc)
	if !ok {
		return nil, false
	}
	arr, ok := al.Type().Underlying().(*types.Pointer).Elem().Underlying().(*types.Array)
	if !ok {
		return nil, false
	}
	out := make([]ssa.Value, arr.Len())
	for _, ref := range *al.Referrers() {
		ia, ok := ref.(*ssa.IndexAddr)
		if !ok {
			continue
		}
		ci, ok := ia.Index.(*ssa.Const)
		if !ok {
			return nil, false
		}
		i, _ := constant.Int64Val(ci.Value)
		for _, r2 := range *ia.Referrers() {
			if s, ok := r2.(*ssa.Store); ok && s.Addr == ia {
				out[i] = s.Val
			}
		}
	}
	for _, o := range out {
		if o == nil {
			return nil, false
		}
	}
	return out, true
}

func intToStr(v Term) Term {
	return fmt.Sprintf("(ite (>= %s 0) (str.from_int %s) (str.++ \"-\" (str.from_int (- %s))))", v, v, v)
}

var verbRe = regexp.MustCompile(`%[-+# 0]*[0-9]*(\.[0-9]+)?[a-zA-Z%]`)

func sprintfModel(fr *Frame, c *ssa.CallCommon, fmtArg, varArg int, st *State) (Term, bool) {
	fx := fr.fx
	fc, ok := c.Args[fmtArg].(*ssa.Const)
	if !ok || fc.Value == nil {
		return "", false
	}
	format := constant.StringVal(fc.Value)
	vals, ok := varargValues(c.Args[varArg])
	if !ok {
		return "", false
	}
	var pieces []Term
	pos := 0
	argi := 0
	for _, loc := range verbRe.FindAllStringIndex(format, -1) {
		if loc[0] > pos {
			pieces = append(pieces, strLit(format[pos:loc[0]]))
		}
		verb := format[loc[0]:loc[1]]
		pos = loc[1]
		if verb == "%%" {
			pieces = append(pieces, strLit("%"))
			continue
		}
		if argi >= len(vals) {
			return "", false
		}
		av := vals[argi]
		argi++
		mi, isMI := av.(*ssa.MakeInterface)
		if !isMI {
			return "", false
		}
		x := fr.val(mi.X)
		xt := mi.X.Type()
		switch {
		case verb == "%s" && isString(xt):
			pieces = append(pieces, x.t)
		case verb == "%d" && isInteger(xt):
			pieces = append(pieces, intToStr(x.t))
		case verb == "%02d" && isInteger(xt):
			pieces = append(pieces, fmt.Sprintf("(ite (and (<= 0 %s) (< %s 10)) (str.++ \"0\" (str.from_int %s)) %s)", x.t, x.t, x.t, intToStr(x.t)))
		default:
			return "", false
		}
	}
	if pos < len(format) {
		pieces = append(pieces, strLit(format[pos:]))
	}
	_ = fx
	switch len(pieces) {
	case 0:
		return `""`, true
	case 1:
		return pieces[0], true
	}
	return "(str.++ " + strings.Join(pieces, " ") + ")", true
}

func (fx *FnCtx) ufun(name string, argSorts []string, ret string) {
	fx.s.global(name, fmt.Sprintf("(declare-fun %s (%s) %s)", name, strings.Join(argSorts, " "), ret))
}

func (fx *FnCtx) errVal(st *State, okCond Term) Term {
	e := fx.s.freshConst("err", "Iface")
	fx.s.assume(st.guard, fmt.Sprintf("(= (= %s niliface) %s)", e, okCond))
	return e
}

// errOf: the error a library function returns is a function of its input (usable inside specifications)
func (fx *FnCtx) errOf(fn string, arg Term, okCond Term) Term {
	fx.ufun(fn, []string{"String"}, "Iface")
	fx.s.global(fn+"!ax:"+okCond[:min(len(okCond), 12)], "")
	e := "(" + fn + " " + arg + ")"
	return fmt.Sprintf("(ite %s niliface (ite (= %s niliface) (mkiface 1 1) %s))", okCond, e, e)
}

func init() {
	externals = map[string]*extEntry{}
	pure := func(names ...string) {
		for _, n := range names {
			externals[n] = noEffect("no effect on program state; never panics; result unconstrained")
		}
	}
	pure("fmt.Println", "fmt.Printf", "fmt.Print", "log.Printf", "log.Print", "log.Println", "time.Now", "time.Since")
	externals["fmt.Errorf"] = &extEntry{doc: "returns a non-nil error; no effect on program state; never panics",
		fn: func(fr *Frame, ins ssa.Instruction, c *ssa.CallCommon, args []Val, st *State) []Val {
			e := fr.fx.s.freshConst("err", "Iface")
			fr.fx.s.assume(st.guard, not(eq(e, "niliface")))
			return []Val{{t: e}}
		}}

	externals["fmt.Sprintf"] = &extEntry{doc: "for the verbs %s (string), %d, %02d (integers): the concatenation of the obvious pieces; otherwise an unconstrained string; never panics",
		fn: func(fr *Frame, ins ssa.Instruction, c *ssa.CallCommon, args []Val, st *State) []Val {
			if t, ok := sprintfModel(fr, c, 0, 1, st); ok {
				return []Val{{t: t}}
			}
			return fr.havocResults(c, st)
		}}

	externals["strconv.Atoi"] = &extEntry{doc: "Atoi(s): err == nil iff atoi_ok(s); a non-empty string of at most 18 ASCII digits is ok and yields its decimal value; \"\" is not ok; result in int64 range",
		fn: func(fr *Frame, ins ssa.Instruction, c *ssa.CallCommon, args []Val, st *State) []Val {
			fx := fr.fx
			fx.ufun("atoi_ok", []string{"String"}, "Bool")
			fx.ufun("atoi_val", []string{"String"}, "Int")
			fx.s.global("isDigits", `(define-fun isDigits ((s String)) Bool (or (= s "") (>= (str.to_int s) 0)))`)
			s := args[0].t
			fx.s.global("atoi!ax", "(assert (forall ((s String)) (! (and (=> (and (isDigits s) (< 0 (str.len s)) (<= (str.len s) 18)) (and (atoi_ok s) (= (atoi_val s) (str.to_int s)))) (<= (- 9223372036854775808) (atoi_val s)) (<= (atoi_val s) 9223372036854775807)) :pattern ((atoi_ok s)) :pattern ((atoi_val s)))))")
			fx.s.global("atoi!ax2", "(assert (not (atoi_ok \"\")))")
			v := fx.s.define("atoi", "Int", fmt.Sprintf("(ite (atoi_ok %s) (atoi_val %s) 0)", s, s))
			return []Val{{t: v}, {t: fx.errOf("atoi_err", s, "(atoi_ok "+s+")")}}
		}}
	externals["strconv.ParseInt"] = &extEntry{doc: "ParseInt(s, base, bits): err == nil iff parseint<bits>_ok(s) (a different function of the text for a base other than 10); then the result fits the bit size; \"\" is not ok",
		fn: func(fr *Frame, ins ssa.Instruction, c *ssa.CallCommon, args []Val, st *State) []Val {
			fx := fr.fx
			bits := "64"
			if bc, ok := c.Args[2].(*ssa.Const); ok {
				bits = bc.Value.ExactString()
			}
			base := "x"
			if bc, ok := c.Args[1].(*ssa.Const); ok {
				base = bc.Value.ExactString()
			}
			okf, valf := "parseint"+bits+"_ok", "parseint"+bits+"_val"
			if base != "10" {
				// another base is another function of the text (the decimal-digits fact below is then not assumed)
				okf, valf = "parseint"+bits+"b"+base+"_ok", "parseint"+bits+"b"+base+"_val"
			}
			fx.ufun(okf, []string{"String"}, "Bool")
			fx.ufun(valf, []string{"String"}, "Int")
			s := args[0].t
			var rng Term
			if bits == "32" {
				rng = intRange(types.Typ[types.Int32], "("+valf+" "+s+")")
			} else {
				rng = intRange(types.Typ[types.Int64], "("+valf+" "+s+")")
			}
			fx.s.assume(st.guard, rng)
			fx.s.global(okf+"!blank", "(assert (not ("+okf+" \"\")))")
			fx.s.global("isDigits", `(define-fun isDigits ((s String)) Bool (or (= s "") (>= (str.to_int s) 0)))`)
			if base == "10" {
				fx.s.assume(st.guard, fmt.Sprintf("(=> (and (isDigits %s) (< 0 (str.len %s)) (<= (str.len %s) 9)) (and (%s %s) (= (%s %s) (str.to_int %s))))", s, s, s, okf, s, valf, s, s))
			}
			v := fx.s.define("parseint", "Int", fmt.Sprintf("(ite (%s %s) (%s %s) 0)", okf, s, valf, s))
			return []Val{{t: v}, {t: fx.errVal(st, "("+okf+" "+s+")")}}
		}}
	externals["strconv.ParseFloat"] = &extEntry{doc: "ParseFloat(s, bits): a function of (s, bits) only: err == nil iff parsefloat_ok(s, bits), value parsefloat_val(s, bits)",
		fn: func(fr *Frame, ins ssa.Instruction, c *ssa.CallCommon, args []Val, st *State) []Val {
			fx := fr.fx
			fx.ufun("parsefloat_ok", []string{"String", "Int"}, "Bool")
			fx.ufun("parsefloat_val", []string{"String", "Int"}, "F64")
			s := args[0].t
			b := args[1].t
			return []Val{{t: "(parsefloat_val " + s + " " + b + ")"}, {t: fx.errVal(st, "(parsefloat_ok "+s+" "+b+")")}}
		}}
	externals["strconv.FormatInt"] = &extEntry{doc: "FormatInt(i, 10) is the decimal notation of i",
		fn: func(fr *Frame, ins ssa.Instruction, c *ssa.CallCommon, args []Val, st *State) []Val {
			return []Val{{t: intToStr(args[0].t)}}
		}}
	externals["strings.TrimSpace"] = &extEntry{doc: "TrimSpace(s) is a function of s only",
		fn: func(fr *Frame, ins ssa.Instruction, c *ssa.CallCommon, args []Val, st *State) []Val {
			fr.fx.ufun("trimspace", []string{"String"}, "String")
			return []Val{{t: "(trimspace " + args[0].t + ")"}}
		}}
	externals["strings.HasPrefix"] = &extEntry{doc: "HasPrefix(s, p) iff p is a prefix of s",
		fn: func(fr *Frame, ins ssa.Instruction, c *ssa.CallCommon, args []Val, st *State) []Val {
			return []Val{{t: "(str.prefixof " + args[1].t + " " + args[0].t + ")"}}
		}}
	externals["strings.LastIndex"] = &extEntry{doc: "LastIndex(s, sep) = -1, or an index i with s[i:i+len(sep)] == sep and no later occurrence",
		fn: func(fr *Frame, ins ssa.Instruction, c *ssa.CallCommon, args []Val, st *State) []Val {
			fx := fr.fx
			fx.ufun("lastindex", []string{"String", "String"}, "Int")
			s, sep := args[0].t, args[1].t
			r := "(lastindex " + s + " " + sep + ")"
			fx.s.assume(st.guard, fmt.Sprintf("(and (<= (- 1) %s) (=> (>= %s 0) (and (<= (+ %s (str.len %s)) (str.len %s)) (= (str.substr %s %s (str.len %s)) %s))) (=> (= %s (- 1)) (not (str.contains %s %s))))", r, r, r, sep, s, s, r, sep, sep, r, s, sep))
			return []Val{{t: r}}
		}}
	externals["unicode.IsSpace"] = &extEntry{doc: "IsSpace(r) is a function of r only; false for ASCII digits and ':'",
		fn: func(fr *Frame, ins ssa.Instruction, c *ssa.CallCommon, args []Val, st *State) []Val {
			fr.fx.ufun("isspace", []string{"Int"}, "Bool")
			return []Val{{t: "(isspace " + args[0].t + ")"}}
		}}

	// ---- time
	externals["time.Unix"] = &extEntry{doc: "Unix(sec, nsec) denotes the instant sec*1e9+nsec ns after the epoch, in Local",
		fn: func(fr *Frame, ins ssa.Instruction, c *ssa.CallCommon, args []Val, st *State) []Val {
			return []Val{{t: fmt.Sprintf("(mktime (+ (* %s 1000000000) %s) time_Local)", args[0].t, args[1].t)}}
		}}
	externals["(*archive/zip.File).Open"] = &extEntry{doc: "f.Open(): (a non-nil io.ReadCloser, nil) or (nil, a non-nil error); no effect on verified state; panics iff f is nil",
		fn: func(fr *Frame, ins ssa.Instruction, c *ssa.CallCommon, args []Val, st *State) []Val {
			fx := fr.fx
			fr.safety("safe:nil", ins, "Open on "+fr.describe(c.Args[0]), st, not(eq(args[0].t, "nilref")))
			ok := fx.s.freshConst("zipopen_ok", "Bool")
			rc := fx.s.freshConst("zipopen_rc", "Iface")
			fx.s.assume(st.guard, fmt.Sprintf("(= %s (not (= %s niliface)))", ok, rc))
			return []Val{{t: rc}, {t: fx.errVal(st, ok)}}
		}}
	externals["(time.Time).In"] = &extEntry{doc: "t.In(loc) is the same instant presented in loc; panics iff loc is nil",
		fn: func(fr *Frame, ins ssa.Instruction, c *ssa.CallCommon, args []Val, st *State) []Val {
			fr.safety("safe:nil", ins, "In("+fr.describe(c.Args[1])+")", st, not(eq(args[1].t, "nilref")))
			return []Val{{t: fmt.Sprintf("(mktime (t_ns %s) %s)", args[0].t, args[1].t)}}
		}}
	externals["(time.Time).Unix"] = &extEntry{doc: "t.Unix() is the number of whole seconds of the instant since the epoch (floor)",
		fn: func(fr *Frame, ins ssa.Instruction, c *ssa.CallCommon, args []Val, st *State) []Val {
			return []Val{{t: "(div (t_ns " + args[0].t + ") 1000000000)"}}
		}}
	externals["(time.Time).Add"] = &extEntry{doc: "t.Add(d) is the instant d nanoseconds later, same location (no overflow modelled)",
		fn: func(fr *Frame, ins ssa.Instruction, c *ssa.CallCommon, args []Val, st *State) []Val {
			return []Val{{t: fmt.Sprintf("(mktime (+ (t_ns %s) %s) (t_loc %s))", args[0].t, args[1].t, args[0].t)}}
		}}
	externals["(time.Time).Before"] = &extEntry{doc: "Before/After/Equal compare instants",
		fn: func(fr *Frame, ins ssa.Instruction, c *ssa.CallCommon, args []Val, st *State) []Val {
			return []Val{{t: fmt.Sprintf("(< (t_ns %s) (t_ns %s))", args[0].t, args[1].t)}}
		}}
	externals["(time.Time).After"] = &extEntry{doc: "Before/After/Equal compare instants",
		fn: func(fr *Frame, ins ssa.Instruction, c *ssa.CallCommon, args []Val, st *State) []Val {
			return []Val{{t: fmt.Sprintf("(> (t_ns %s) (t_ns %s))", args[0].t, args[1].t)}}
		}}
	externals["(time.Time).Equal"] = &extEntry{doc: "Before/After/Equal compare instants",
		fn: func(fr *Frame, ins ssa.Instruction, c *ssa.CallCommon, args []Val, st *State) []Val {
			return []Val{{t: fmt.Sprintf("(= (t_ns %s) (t_ns %s))", args[0].t, args[1].t)}}
		}}
	externals["time.Date"] = &extEntry{doc: "Date(y,m,d,h,mi,s,ns,loc) = civil(y,m,d,h,mi,s,ns,loc), an uninterpreted instant, presented in loc; panics iff loc is nil",
		fn: func(fr *Frame, ins ssa.Instruction, c *ssa.CallCommon, args []Val, st *State) []Val {
			fx := fr.fx
			fx.ufun("civil_ns", []string{"Int", "Int", "Int", "Int", "Int", "Int", "Int", "Ref"}, "Int")
			fr.safety("safe:nil", ins, "Date(loc)", st, not(eq(args[7].t, "nilref")))
			return []Val{{t: fmt.Sprintf("(mktime (civil_ns %s %s %s %s %s %s %s %s) %s)", args[0].t, args[1].t, args[2].t, args[3].t, args[4].t, args[5].t, args[6].t, args[7].t, args[7].t)}}
		}}
	externals["time.ParseInLocation"] = &extEntry{doc: "ParseInLocation(layout, s, loc): err == nil iff parsetime_ok(layout, s); then the result is parsetime_ns(layout, s, loc) presented in loc",
		fn: func(fr *Frame, ins ssa.Instruction, c *ssa.CallCommon, args []Val, st *State) []Val {
			fx := fr.fx
			fx.ufun("parsetime_ok", []string{"String", "String"}, "Bool")
			fx.ufun("parsetime_ns", []string{"String", "String", "Ref"}, "Int")
			ok := fmt.Sprintf("(parsetime_ok %s %s)", args[0].t, args[1].t)
			v := fmt.Sprintf("(ite %s (mktime (parsetime_ns %s %s %s) %s) zerotime)", ok, args[0].t, args[1].t, args[2].t, args[2].t)
			return []Val{{t: v}, {t: fx.errVal(st, ok)}}
		}}
	externals["time.LoadLocation"] = &extEntry{doc: "LoadLocation(name): err == nil iff loadloc_ok(name); then a non-nil *Location that is a function of name (process TZ database fixed)",
		fn: func(fr *Frame, ins ssa.Instruction, c *ssa.CallCommon, args []Val, st *State) []Val {
			fx := fr.fx
			fx.ufun("loadloc_ok", []string{"String"}, "Bool")
			fx.ufun("loadloc", []string{"String"}, "Ref")
			n := args[0].t
			fx.s.assume(st.guard, fmt.Sprintf("(and (> (obj (loadloc %s)) 0) (< (obj (loadloc %s)) 1000))", n, n))
			ok := "(loadloc_ok " + n + ")"
			return []Val{{t: ite(ok, "(loadloc "+n+")", "nilref")}, {t: fx.errVal(st, ok)}}
		}}

	// ---- regexp
	externals["(*regexp.Regexp).FindStringSubmatch"] = &extEntry{doc: "FindStringSubmatch: nil, or a fresh slice of 1+groups strings; per-pattern facts are listed separately",
		fn: extFindStringSubmatch}

	// ---- protobuf runtime
	externals["google.golang.org/protobuf/proto.HasExtension"] = &extEntry{doc: "HasExtension(m, E) is a function of (m, E); false for a nil message",
		fn: func(fr *Frame, ins ssa.Instruction, c *ssa.CallCommon, args []Val, st *State) []Val {
			fx := fr.fx
			fx.ufun("has_ext", []string{"Ref", "Int"}, "Bool")
			m := fr.msgRef(c.Args[0])
			_, id := fx.extDescriptor(c.Args[1])
			return []Val{{t: fmt.Sprintf("(and (not (= %s nilref)) (has_ext %s %s))", m, m, id)}}
		}}
	externals["google.golang.org/protobuf/proto.GetExtension"] = &extEntry{doc: "GetExtension(m, E_X) has dynamic type *X (the extension's message type); non-nil iff HasExtension(m, E_X); a function of (m, E)",
		fn: extGetExtension}
	externals["encoding/json.Marshal"] = &extEntry{doc: "json.Marshal returns fresh bytes and an error; no other effect; never panics",
		fn: func(fr *Frame, ins ssa.Instruction, c *ssa.CallCommon, args []Val, st *State) []Val {
			fx := fr.fx
			ref := fx.allocRef(st, "0")
			n := fx.s.freshConst("jsonlen", "Int")
			fx.s.assume(st.guard, "(>= "+n+" 0)")
			fx.s.global("bytes_of", "(declare-fun bytes_of (Int) String)")
			sl := fx.s.define("json", "Slice", fmt.Sprintf("(mkslice (obj %s) 0 %s %s)", ref, n, n))
			fx.s.assume(st.guard, fmt.Sprintf("(= (str.len (bytes_of (sobj %s))) %s)", sl, n))
			return []Val{{t: sl}, {t: fx.s.freshConst("err", "Iface")}}
		}}

	// ---- sort
	externals["sort.Slice"] = &extEntry{doc: "sort.Slice(s, less): permutes the elements of s in place (nothing else changes); calls less only with indices in range; terminates",
		fn: extSortSlice,
		mods: func(eng *Engine, c *ssa.CallCommon, m *Modset) {
			if mi, ok := c.Args[0].(*ssa.MakeInterface); ok {
				if st, ok := mi.X.Type().Underlying().(*types.Slice); ok {
					m.add(st.Elem(), false, false)
					return
				}
			}
			m.top = true
		}}
	externals["sort.Strings"] = &extEntry{doc: "sort.Strings(s): permutes s in place into ascending order; nothing else changes",
		fn:   extSortStrings,
		mods: func(eng *Engine, c *ssa.CallCommon, m *Modset) { m.add(types.Typ[types.String], false, false) }}
}

func (eng *Engine) externalMods(callee *ssa.Function, c *ssa.CallCommon, m *Modset) {
	if e, ok := externals[callee.String()]; ok {
		if e.mods != nil {
			e.mods(eng, c, m)
		}
		return
	}
	if extraMods(eng, callee, c, m) {
		return
	}
	m.top = true
}

func (eng *Engine) externalInvokePure(c *ssa.CallCommon) bool {
	switch c.Method.Name() {
	case "Error", "String", "Name", "Close":
		return true
	}
	return false
}

func (fr *Frame) external(ins ssa.Instruction, fn *ssa.Function, c *ssa.CallCommon, args []Val, st *State) []Val {
	fx := fr.fx
	name := fn.String()
	if e, ok := externals[name]; ok {
		fx.useExt(name, e)
		return e.fn(fr, ins, c, args, st)
	}
	if res, ok := fr.extraExternal(ins, fn, c, args, st); ok {
		return res
	}
	unsupported("external function %s has no assumed contract", name)
	return nil
}

func (fr *Frame) externalInvoke(ins ssa.Instruction, c *ssa.CallCommon, recv Val, args []Val, st *State) ([]Val, bool) {
	fx := fr.fx
	it := typeKey(c.Value.Type())
	switch {
	case c.Method.Name() == "Error" && it == "error":
		fx.trusted["error.Error(): returns a string; no effect; never panics"] = true
		return fr.havocResults(c, st), true
	case c.Method.Name() == "Close" && strings.HasPrefix(it, "io."):
		fx.trusted["io.Closer.Close(): returns an error; no effect on verified state; never panics"] = true
		return fr.havocResults(c, st), true
	case c.Method.Name() == "Name" && strings.Contains(it, "DirEntry"):
		fx.trusted["fs.DirEntry.Name(): returns a string; no effect; never panics"] = true
		return fr.havocResults(c, st), true
	}
	return fr.extraInvoke(ins, c, recv, args, st)
}

// ---- regexp ------------------------------------------------------------------------------------

// patternOf finds the constant pattern a package-level *regexp.Regexp was compiled from.
func (eng *Engine) patternOf(v ssa.Value) (string, bool) {
	ld, ok := v.(*ssa.UnOp)
	if !ok {
		return "", false
	}
	g, ok := ld.X.(*ssa.Global)
	if !ok {
		return "", false
	}
	init := g.Pkg.Func("init")
	if init == nil {
		return "", false
	}
	for _, b := range init.Blocks {
		for _, ins := range b.Instrs {
			s, ok := ins.(*ssa.Store)
			if !ok || s.Addr != g {
				continue
			}
			call, ok := s.Val.(*ssa.Call)
			if !ok {
				continue
			}
			if f := call.Call.StaticCallee(); f != nil && f.String() == "regexp.MustCompile" {
				if pc, ok := call.Call.Args[0].(*ssa.Const); ok {
					return constant.StringVal(pc.Value), true
				}
			}
		}
	}
	return "", false
}

func extFindStringSubmatch(fr *Frame, ins ssa.Instruction, c *ssa.CallCommon, args []Val, st *State) []Val {
	fx := fr.fx
	pat, ok := fx.eng.patternOf(c.Args[0])
	if !ok {
		unsupported("FindStringSubmatch on a regexp whose pattern is not a package-level constant")
	}
	groups := strings.Count(pat, "(") - strings.Count(pat, `\(`)
	s := args[1].t
	matched := fx.s.freshConst("rematch", "Bool")
	ref := fx.allocRef(st, "0")
	o := "(obj " + ref + ")"
	key, srt := fx.tm.heapKey(types.Typ[types.String])
	h := fx.heap(st, key, srt)
	nh := fx.s.freshConst("Hre", "(Array Ref "+srt+")")
	fx.s.assume("true", fmt.Sprintf("(forall ((r Ref)) (! (=> (not (= (obj r) %s)) (= (select %s r) (select %s r))) :pattern ((select %s r))))", o, nh, h, nh))
	st.heaps[key] = nh
	grp := func(i int) Term { return fmt.Sprintf("(select %s (mkref %s %d))", nh, o, i) }
	res := fx.s.define("submatch", "Slice", ite(matched, fmt.Sprintf("(mkslice %s 0 %d %d)", o, groups+1, groups+1), "nilslice"))
	digits := func(t Term, n int) Term {
		return fmt.Sprintf("(and (= (str.len %s) %d) (>= (str.to_int %s) 0))", t, n, t)
	}
	var fact Term
	switch pat {
	case `^([0-9]{2}):([0-9]{2}):([0-9]{2})$`:
		fact = fmt.Sprintf("(= %s (and (= (str.len %s) 8) %s (= (str.at %s 2) \":\") %s (= (str.at %s 5) \":\") %s))", matched, s,
			digits("(str.substr "+s+" 0 2)", 2), s, digits("(str.substr "+s+" 3 2)", 2), s, digits("(str.substr "+s+" 6 2)", 2))
		fact = and(fact, implies(matched, fmt.Sprintf("(and (= %s %s) (= %s (str.substr %s 0 2)) (= %s (str.substr %s 3 2)) (= %s (str.substr %s 6 2)))", grp(0), s, grp(1), s, grp(2), s, grp(3), s)))
	case `^([0-9]{4})([0-9]{2})([0-9]{2})$`:
		fact = fmt.Sprintf("(= %s %s)", matched, digits(s, 8))
		fact = and(fact, implies(matched, fmt.Sprintf("(and (= %s %s) (= %s (str.substr %s 0 4)) (= %s (str.substr %s 4 2)) (= %s (str.substr %s 6 2)))", grp(0), s, grp(1), s, grp(2), s, grp(3), s)))
	case `^([0-9]{6})_([[:alnum:]]{1,2})..([SN])([[:alnum:]]*)$`:
		fx.ufun("re_tripid_matches", []string{"String"}, "Bool")
		fx.s.assume(st.guard, fmt.Sprintf("(= %s (re_tripid_matches %s))", matched, s))
		fact = implies(matched, fmt.Sprintf("(and (>= (str.len %s) 6) (= %s %s) (= %s (str.substr %s 0 6)) %s)", s, grp(0), s, grp(1), s, digits(grp(1), 6)))
	case `([[:alnum:]]{3}?)([SN]?)#EL(.*)`:
		fx.ufun("re_elev_matches", []string{"String"}, "Bool")
		for i := 1; i <= 3; i++ {
			fx.ufun(fmt.Sprintf("re_elev_group%d", i), []string{"String"}, "String")
		}
		fx.s.assume(st.guard, fmt.Sprintf("(and (= %s (re_elev_matches %s)) (=> %s (and (= %s (re_elev_group1 %s)) (= %s (re_elev_group2 %s)) (= %s (re_elev_group3 %s)))))", matched, s, matched, grp(1), s, grp(2), s, grp(3), s))
		alnum := `(re.union (re.range "0" "9") (re.range "a" "z") (re.range "A" "Z"))`
		fact = implies(matched, fmt.Sprintf("(and (str.contains %s (str.++ %s %s \"#EL\" %s)) (= (str.len %s) 3) (str.in_re %s (re.* %s)) (or (= %s \"\") (= %s \"S\") (= %s \"N\")) (= %s (str.++ %s %s \"#EL\" %s)))",
			s, grp(1), grp(2), grp(3), grp(1), grp(1), alnum, grp(2), grp(2), grp(2), grp(0), grp(1), grp(2), grp(3)))
	default:
		fact = "true"
	}
	fx.trusted["regexp axiom for pattern "+pat+" (hand-written, assumed)"] = true
	fx.s.assume(st.guard, fact)
	return []Val{{t: res}}
}

// ---- protobuf extensions -------------------------------------------------------------------------

func extGetExtension(fr *Frame, ins ssa.Instruction, c *ssa.CallCommon, args []Val, st *State) []Val {
	fx := fr.fx
	extType, id := fx.extDescriptor(c.Args[1])
	fx.ufun("has_ext", []string{"Ref", "Int"}, "Bool")
	fx.ufun("get_ext", []string{"Ref", "Int"}, "Ref")
	m := fr.msgRef(c.Args[0])
	p := fx.s.define("ext", "Ref", fmt.Sprintf("(get_ext %s %s)", m, id))
	has := fmt.Sprintf("(and (not (= %s nilref)) (has_ext %s %s))", m, m, id)
	fx.s.assume(st.guard, fmt.Sprintf("(and (<= 0 (obj %s)) (<= (obj %s) %s) (= (not (= %s nilref)) %s) (=> (= (obj %s) 0) (= %s nilref)))", p, p, st.alloc, p, has, p, p))
	return []Val{{t: fx.box(Val{t: p}, extType)}}
}

// extDescriptor: which extension a descriptor argument denotes (a package-level E_<Name> variable)
func (fx *FnCtx) extDescriptor(v ssa.Value) (types.Type, Term) {
	if mi, ok := v.(*ssa.MakeInterface); ok {
		v = mi.X
	}
	if ld, ok := v.(*ssa.UnOp); ok {
		if g, ok := ld.X.(*ssa.Global); ok {
			if t := fx.eng.extensionType(g); t != nil {
				id := "extid_" + sanitize(g.Name())
				fx.s.global(id, fmt.Sprintf("(declare-fun %s () Int)", id))
				return t, id
			}
		}
	}
	unsupported("protobuf extension call with an unknown extension descriptor")
	return nil, ""
}

// msgRef: the message pointer behind a proto.Message interface argument built at the call site
func (fr *Frame) msgRef(v ssa.Value) Term {
	mi, ok := v.(*ssa.MakeInterface)
	if !ok {
		unsupported("proto extension call on a message that is not converted to an interface at the call site")
	}
	return fr.val(mi.X).t
}

// extensionType: the Go type of values of extension E_X, read from the initialiser of file_..._extTypes.
func (eng *Engine) extensionType(g *ssa.Global) types.Type {
	// E_NyctTripDescriptor etc are initialised as &file_..._extTypes[i]; the ExtensionType field is (*X)(nil).
	// We use the naming convention of protoc-gen-go, checked against the package scope: E_<Name> ↦ *<Name>.
	name := strings.TrimPrefix(g.Name(), "E_")
	if obj := g.Pkg.Pkg.Scope().Lookup(name); obj != nil {
		if tn, ok := obj.(*types.TypeName); ok {
			return types.NewPointer(tn.Type())
		}
	}
	return nil
}

// ---- sort ---------------------------------------------------------------------------------------

func sliceCellsHavoc(fx *FnCtx, st *State, et types.Type, s Term) (hOld, hNew Term) {
	key, srt := fx.tm.heapKey(et)
	h := fx.heap(st, key, srt)
	nh := fx.s.freshConst("Hsort", "(Array Ref "+srt+")")
	fx.s.assume("true", fmt.Sprintf("(forall ((r Ref)) (! (=> (not (and (= (obj r) (sobj %s)) (<= (soff %s) (idx r)) (< (idx r) (+ (soff %s) (slen %s))))) (= (select %s r) (select %s r))) :pattern ((select %s r))))", s, s, s, s, nh, h, nh))
	st.heaps[key] = nh
	return h, nh
}

func extSortSlice(fr *Frame, ins ssa.Instruction, c *ssa.CallCommon, args []Val, st *State) []Val {
	fx := fr.fx
	mi, ok := c.Args[0].(*ssa.MakeInterface)
	if !ok {
		unsupported("sort.Slice on a non-literal interface value")
	}
	stp, ok := mi.X.Type().Underlying().(*types.Slice)
	if !ok {
		unsupported("sort.Slice on non-slice")
	}
	s := fr.val(mi.X).t
	fx.frameCheckSliceWrite(fr, ins, st, s, stp.Elem(), fr.describe(mi.X))
	hOld, hNew := sliceCellsHavoc(fx, st, stp.Elem(), s)
	fx.sortFacts(fr, c, s, stp.Elem(), hOld, hNew, st)
	return nil
}

func extSortStrings(fr *Frame, ins ssa.Instruction, c *ssa.CallCommon, args []Val, st *State) []Val {
	fx := fr.fx
	s := args[0].t
	fx.frameCheckSliceWrite(fr, ins, st, s, types.Typ[types.String], fr.describe(c.Args[0]))
	hOld, hNew := sliceCellsHavoc(fx, st, types.Typ[types.String], s)
	// permutation: every new element is an old element (and vice versa)
	pf := fx.s.fresh("sortperm")
	fx.s.lines = append(fx.s.lines, fmt.Sprintf("(declare-fun %s (Int) Int)", pf))
	fx.s.assume(st.guard, fmt.Sprintf("(forall ((j Int)) (! (=> (and (<= 0 j) (< j (slen %s))) (and (<= 0 (%s j)) (< (%s j) (slen %s)) (= (select %s (elemref %s j)) (select %s (elemref %s (%s j)))))) :pattern ((select %s (elemref %s j)))))", s, pf, pf, s, hNew, s, hOld, s, pf, hNew, s))
	// ascending order
	fx.s.assume(st.guard, fmt.Sprintf("(forall ((i Int) (j Int)) (! (=> (and (<= 0 i) (< i j) (< j (slen %s))) (str.<= (select %s (elemref %s i)) (select %s (elemref %s j)))) :pattern ((select %s (elemref %s i)) (select %s (elemref %s j)))))", s, hNew, s, hNew, s, hNew, s, hNew, s))
	return nil
}

package main

// govc check -prop Cxx -tier quick|thorough : the registered check of one property.

import (
	"bufio"
	"context"
	"encoding/json"
	"flag"
	"fmt"
	"golang.org/x/tools/go/ssa"
	"os"
	"os/exec"
	"path/filepath"
	"sort"
	"strings"
	"time"
)

type knownFinding struct {
	Prop, Obligation, Text string
}

func loadKnownFindings(path string) []knownFinding {
	f, err := os.Open(path)
	if err != nil {
		return nil
	}
	defer f.Close()
	var out []knownFinding
	sc := bufio.NewScanner(f)
	for sc.Scan() {
		l := strings.TrimSpace(sc.Text())
		if !strings.HasPrefix(l, "finding:") {
			continue
		}
		kf := knownFinding{Text: l}
		for _, w := range strings.Fields(l) {
			if strings.HasPrefix(w, "property=") {
				kf.Prop = strings.TrimPrefix(w, "property=")
			}
			if strings.HasPrefix(w, "obligation=") {
				kf.Obligation = strings.TrimPrefix(w, "obligation=")
			}
		}
		out = append(out, kf)
	}
	return out
}

func obFull(ob *Obligation) string {
	if ob.Func == "lemma" {
		return ob.Name
	}
	return ob.Func + "::" + ob.Name
}

func hasProp(props []string, p string) bool {
	for _, x := range props {
		if x == p {
			return true
		}
	}
	return false
}

// which obligations of a function result belong to property p
func selectObligations(r *FnResult, p string) []*Obligation {
	var out []*Obligation
	fnHas := hasProp(r.Props, p)
	for _, ob := range r.Obs {
		switch {
		case strings.HasPrefix(ob.Kind, "safe:") || ob.Kind == "variant":
			if p == "C05" {
				out = append(out, ob)
			}
		case ob.Kind == "frame":
			if p == "C06" || p == "C18" {
				out = append(out, ob)
			}
		case ob.Kind == "pre@call":
			if p == "C05" || fnHas {
				out = append(out, ob)
			}
		default: // post, inv-init, inv-pres, lemma, canary, cover
			if fnHas || hasProp(ob.Props, p) {
				out = append(out, ob)
			}
		}
	}
	return out
}

type obRecord struct {
	Name   string  `json:"name"`
	Kind   string  `json:"kind"`
	Func   string  `json:"func"`
	Status string  `json:"status"`
	Solver string  `json:"solver"`
	TimeS  float64 `json:"time_s"`
	Cross  string  `json:"cross_checked_by,omitempty"`
}

func checkMain(args []string) {
	fs := flag.NewFlagSet("check", flag.ExitOnError)
	repo := fs.String("repo", "/repo", "repository")
	prop := fs.String("prop", "", "property id")
	tier := fs.String("tier", "quick", "quick|thorough")
	verif := fs.String("verif", "/verif", "verif directory")
	fs.Parse(args)
	t0 := time.Now()
	outDir := filepath.Join(*verif, "out", *prop)
	os.RemoveAll(outDir)
	os.MkdirAll(outDir, 0o755)
	replayDir := filepath.Join(*verif, "replays", *prop)
	os.MkdirAll(replayDir, 0o755)
	seed := 0
	fmt.Sscan(os.Getenv("VERIF_SEED"), &seed)

	eng, err := loadEngine(*repo)
	if err != nil {
		fmt.Fprintln(os.Stderr, "load:", err)
		// the tree does not load: cannot decide anything
		fmt.Printf("CHECK-BROKEN property=%s cannot load /repo: %v\n", *prop, err)
		os.Exit(2)
	}
	loadS := time.Since(t0).Seconds()
	var results []*FnResult
	for _, fn := range eng.targets() {
		results = append(results, eng.verifyFunc(fn))
	}
	for _, l := range eng.contracts.Lemmas {
		results = append(results, eng.verifyLemma(l))
	}
	genS := time.Since(t0).Seconds() - loadS

	unclaimedEarly := loadUnclaimed(filepath.Join(*verif, "UNCLAIMED_OBLIGATIONS.txt"))
	var skippedQuick []string
	type sel struct {
		r  *FnResult
		ob *Obligation
	}
	var sels []sel
	selByOb := map[*Obligation]*ssa.Function{}
	var jobs []*job
	funcs := map[string]bool{}
	trusted := map[string]bool{}
	assumptions := map[string]bool{}
	uncontr := map[string]bool{}
	bounded := map[string]bool{}
	var unsupported []string
	// Callee contracts relied upon: a function of this property that calls F modularly sees only F's contract. The
	// postconditions a property needs from a function tagged with other properties carry an explicit
	// [label also Cxx] tag and are selected through it; the remaining relied-upon callees are listed in the evidence
	// (they are checked under their own properties: selecting all of them here would make a change that breaks
	// one property raise alarms for every property whose functions merely call the changed one).
	byName := map[string]*FnResult{}
	for _, r := range results {
		byName[r.Name] = r
	}
	relied := map[string]bool{}
	var work []string
	for _, r := range results {
		if hasProp(r.Props, *prop) {
			work = append(work, r.UsedCallees...)
		}
	}
	for len(work) > 0 {
		n := work[len(work)-1]
		work = work[:len(work)-1]
		r := byName[n]
		if r == nil || relied[n] || hasProp(r.Props, *prop) {
			continue
		}
		relied[n] = true
		work = append(work, r.UsedCallees...)
	}
	var reliedList []string
	for _, r := range results {
		obs := selectObligations(r, *prop)
		if relied[r.Name] {
			reliedList = append(reliedList, r.Name)
		}
		relevant := len(obs) > 0 || hasProp(r.Props, *prop) || hasProp(r.AlsoProps, *prop)
		if !relevant {
			continue
		}
		if r.Unsupported != "" && (hasProp(r.Props, *prop) || hasProp(r.AlsoProps, *prop)) && !strings.Contains(r.Unsupported, "trusted") {
			unsupported = append(unsupported, r.Name+": "+r.Unsupported)
		}
		if r.Unsupported != "" && strings.Contains(r.Unsupported, "trusted") && hasProp(r.Props, *prop) {
			trusted["contract of "+r.Name+" is assumed (marked trusted), its body is not verified"] = true
		}
		if len(obs) == 0 {
			continue
		}
		funcs[r.Name] = true
		for _, t := range r.Trusted {
			trusted[t] = true
		}
		for _, a := range r.Assumptions {
			assumptions[a] = true
		}
		for _, u := range r.Uncontr {
			uncontr[u] = true
		}
		for _, b := range r.Bounded {
			bounded[b] = true
		}
		for _, ob := range obs {
			if *tier == "quick" && unclaimedEarly[obFull(ob)] {
				skippedQuick = append(skippedQuick, obFull(ob)+" (not attempted in the quick tier; attempted with long timeouts in the thorough tier)")
				continue
			}
			j := &job{ob: ob, path: obFile(outDir, r.Name+"__"+ob.Name)}
			jobs = append(jobs, j)
			sels = append(sels, sel{r, ob})
			selByOb[ob] = r.Fn
		}
	}
	timeout := 20
	cross := false
	if v := os.Getenv("GOVC_TIMEOUT"); v != "" {
		fmt.Sscan(v, &timeout) // development aid (runs against seeded changes); registered commands never set it
	}
	if *tier == "thorough" {
		timeout = 60
		cross = true
	}
	cacheDir = filepath.Join(*verif, "out", "cache")
	if v := os.Getenv("GOVC_CACHE_DIR"); v != "" {
		cacheDir = v // development aid: share the result cache between scratch runs
	}
	if os.Getenv("GOVC_NOCACHE") != "" {
		cacheDir = ""
	}
	solveAll(jobs, timeout, cross, 16)

	// obligations the solvers do not decide well inside the quick timeout on the reference tree: they are not part of
	// the claim (neither counted as obligations nor as discharged) and are listed in the evidence
	unclaimed := loadUnclaimed(filepath.Join(*verif, "UNCLAIMED_OBLIGATIONS.txt"))
	known := loadKnownFindings(filepath.Join(*verif, "KNOWN_FINDINGS.txt"))
	lock := loadLock(filepath.Join(*verif, "obligations.lock"), *prop)
	violations := 0
	broken := 0
	var recs []obRecord
	var solverTime float64
	nOb, nDis, nCanary, nCanaryOK := 0, 0, 0, 0
	loopEdges := map[string]int{}
	deadEdges := map[string][]string{}
	bySolver := map[string]int{}
	seen := map[string]bool{}
	var samples []map[string]any
	var notClaimed []string
	for _, j := range jobs {
		ob := j.ob
		full := ob.Func + "::" + ob.Name
		if ob.Func == "lemma" {
			full = ob.Name
		}
		seen[full] = true
		solverTime += j.res.TimeS
		recs = append(recs, obRecord{Name: full, Kind: ob.Kind, Func: ob.Func, Status: j.res.Status, Solver: j.res.Solver, TimeS: j.res.TimeS, Cross: j.res.Cross})
		if ob.MustSat && strings.Contains(full, "/cover/loop") {
			// back edges: a single one may be dead code under the assumed type invariants (e.g. "if elem == nil
			// { continue }" over a repeated protobuf field); the loop is vacuous only if none is reachable
			key := full
			if i := strings.Index(key, "/back-edge"); i >= 0 {
				key = key[:i]
			}
			loopEdges[key]++
			if j.res.Status == "unsat" {
				deadEdges[key] = append(deadEdges[key], full)
			}
			continue
		}
		if ob.MustSat {
			nCanary++
			if j.res.Status == "unsat" {
				fmt.Printf("CHECK-BROKEN property=%s vacuity guard %s was discharged (must be satisfiable): contradictory assumptions?\n", *prop, full)
				broken++
			} else {
				nCanaryOK++
			}
			continue
		}
		nOb++
		if j.res.Status == "unsat" && unclaimed[full] {
			nOb--
			notClaimed = append(notClaimed, full+" (discharged in this run, but not reliably inside the quick timeout: not claimed)")
			continue
		}
		if j.res.Status == "unsat" {
			nDis++
			bySolver[j.res.Solver]++
			if len(samples) < 4 && j.res.Solver != "trivial" && !strings.Contains(full, "/auto:") && (ob.Kind == "post" || ob.Kind == "lemma" || strings.Contains(full, "/step/") || (len(samples) < 1 && strings.HasPrefix(ob.Kind, "safe"))) {
				samples = append(samples, map[string]any{"obligation": full, "kind": ob.Kind, "text": ob.Text, "pos": ob.Pos, "solver": j.res.Solver, "time_s": j.res.TimeS, "smt_file": j.path})
			}
			continue
		}
		// not discharged
		if unclaimed[full] {
			nOb--
			notClaimed = append(notClaimed, fmt.Sprintf("%s (%s by %s)", full, j.res.Status, j.res.Solver))
			continue
		}
		isKnown := false
		for _, k := range known {
			if k.Prop == *prop && k.Obligation == full {
				fmt.Printf("KNOWN-FINDING: property=%s %s\n", *prop, k.Text)
				isKnown = true
			}
		}
		if isKnown {
			nOb-- // a listed finding is neither counted as an obligation nor as discharged
			continue
		}
		rp := filepath.Join(replayDir, sanitize(full)+".json")
		suffix := " no-failing-input-found"
		var rep *ReplayReport
		if j.res.Status == "sat" && ob.Kind == "lemma" {
			if l := eng.lemmaByName(strings.TrimPrefix(ob.Name, "lemma/")); l != nil {
				r := eng.replayLemma(l, replayDir)
				rep = &r
				if r.Confirmed {
					suffix = ""
				}
			}
		}
		if j.res.Status == "sat" && ob.Kind == "post" && ob.Clause != nil {
			r := eng.replayPost(selByOb[ob], ob.Clause, j.path, replayDir, sanitize(full))
			rep = &r
			if r.Confirmed {
				suffix = ""
			}
		}
		writeReplay(rp, *prop, full, ob, j, rep)
		fmt.Printf("VIOLATION property=%s replay=%s%s\n", *prop, rp, suffix)
		fmt.Printf("  obligation %s (%s) not discharged: %s by %s; %s\n", full, ob.Kind, j.res.Status, j.res.Solver, ob.Pos)
		if rep != nil {
			fmt.Printf("  replay on the compiled code: %s\n", rep.Note)
		}
		violations++
	}
	for _, u := range unsupported {
		rp := filepath.Join(replayDir, sanitize("unsupported_"+u)+".json")
		os.WriteFile(rp, []byte(fmt.Sprintf("{\"property\":%q,\"reason\":%q}\n", *prop, "function left the subset the VC generator handles: "+u)), 0o644)
		fmt.Printf("VIOLATION property=%s replay=%s no-failing-input-found\n", *prop, rp)
		fmt.Printf("  function under contract can no longer be verified: %s\n", u)
		violations++
	}
	// locked contract obligations that disappeared
	for _, name := range lock {
		if !seen[name] {
			rp := filepath.Join(replayDir, sanitize("missing_"+name)+".json")
			os.WriteFile(rp, []byte(fmt.Sprintf("{\"property\":%q,\"obligation\":%q,\"reason\":\"obligation discharged on the reference tree is no longer generated (function or contract clause gone)\"}\n", *prop, name)), 0o644)
			fmt.Printf("VIOLATION property=%s replay=%s no-failing-input-found\n", *prop, rp)
			fmt.Printf("  obligation %s is no longer generated\n", name)
			violations++
		}
	}
	// whole-program frame condition on package-level state (C06: nothing survives a parse; C18: nothing is shared)
	var sharedScan map[string]any
	if *prop == "C06" || *prop == "C18" {
		hits, nf, ni, ro := eng.sharedStateScan()
		for _, h := range hits {
			full := "structural::shared-state/" + h.Func + "/" + h.Var + "/" + h.What
			nOb++
			isKnown := false
			for _, k := range known {
				if k.Prop == *prop && k.Obligation == full {
					fmt.Printf("KNOWN-FINDING: property=%s %s\n", *prop, k.Text)
					isKnown = true
				}
			}
			if isKnown {
				nOb--
				continue
			}
			rp := filepath.Join(replayDir, sanitize(full)+".json")
			os.WriteFile(rp, []byte(fmt.Sprintf("{\"property\":%q,\"obligation\":%q,\"function\":%q,\"variable\":%q,\"what\":%q,\"position\":%q,\"reason\":\"package-level state is written or shared by code reachable outside init: a parse can leave something behind / two parses can race on it\"}\n", *prop, full, h.Func, h.Var, h.What, h.Pos)), 0o644)
			fmt.Printf("VIOLATION property=%s replay=%s no-failing-input-found\n", *prop, rp)
			fmt.Printf("  structural frame obligation failed: %s: %s %s (%s)\n", h.Func, h.What, h.Var, h.Pos)
			violations++
		}
		nOb++ // the scan itself: one structural obligation per run, discharged when it has no hits
		if len(hits) == 0 {
			nDis++
			bySolver["structural-scan"]++
		}
		sharedScan = map[string]any{"functions_scanned": nf, "instructions_scanned": ni, "hits": len(hits), "package_level_variables_read_only": ro,
			"rule": "no store / map update / delete through a package-level variable, no package-level sync or atomic object handed to a call, no go statement, in any non-test function outside package initialisers"}
	}
	var deadList []string
	for key, n := range loopEdges {
		nCanary++
		if len(deadEdges[key]) == n {
			fmt.Printf("CHECK-BROKEN property=%s vacuity guard %s: no end of the loop body is reachable under the assumptions (contradictory invariants?)\n", *prop, key)
			broken++
		} else {
			nCanaryOK++
		}
		deadList = append(deadList, deadEdges[key]...)
	}
	sort.Strings(deadList)
	if nOb == 0 {
		fmt.Printf("CHECK-BROKEN property=%s no obligations generated\n", *prop)
		broken++
	}
	sort.Slice(recs, func(i, j int) bool { return recs[i].Name < recs[j].Name })
	ev := map[string]any{
		"property_id": *prop,
		"tier":        *tier,
		"seed":        seed,
		"level":       "proof",
		"wall_s":      time.Since(t0).Seconds(),
		"violations":  violations,
		"assumptions": append(sortedSet(assumptions), "the VC generator (govc) itself is unverified; see DESIGN.md §9"),
		"coverage": map[string]any{
			"obligations":              nOb,
			"discharged":               nDis,
			"checker_cmd":              fmt.Sprintf("/verif/bin/govc check -prop %s -tier %s  (go/ssa VC generation over /repo's working tree with -tags verif; z3-new 5.1.0, z3 4.8.12, cvc5 1.0.3 raced per obligation, %ds timeout)", *prop, *tier, timeout),
			"trusted_base":             sortedSet(trusted),
			"functions_under_contract": sortedSet(funcs),
			"discharged_by_backend":    bySolver,
			"solver_time_s":            solverTime,
			"load_s":                   loadS,
			"vcgen_s":                  genS,
			"vacuity_guards":           map[string]int{"canaries_and_covers": nCanary, "satisfiable_as_required": nCanaryOK},
			"unreachable_loop_exits_under_assumed_type_invariants": deadList,
			"uncontracted_callees_havoced":                         sortedSet(uncontr),
			"bounded_standins":                                     sortedSet(bounded),
			"contract_files":                                       eng.contracts.Files,
			"assumption_scan":                                      eng.contracts.Scan,
			"samples":                                              samples,
			"per_obligation":                                       recs,
			"locked_obligations":                                   len(lock),
			"shared_state_scan":                                    sharedScan,
			"callee_contracts_relied_upon_checked_under_their_own_properties": reliedList,
			"generated_but_not_claimed":                            append(notClaimed, skippedQuick...),
		},
	}
	b, _ := json.MarshalIndent(ev, "", " ")
	os.MkdirAll(filepath.Join(*verif, "evidence"), 0o755)
	os.WriteFile(filepath.Join(*verif, "evidence", *prop+".json"), b, 0o644)
	fmt.Printf("property=%s tier=%s functions=%d obligations=%d discharged=%d guards=%d/%d violations=%d wall=%.1fs\n", *prop, *tier, len(funcs), nOb, nDis, nCanaryOK, nCanary, violations, time.Since(t0).Seconds())
	if broken > 0 {
		os.Exit(2)
	}
	if violations > 0 {
		os.Exit(1)
	}
}

func writeReplay(path, prop, full string, ob *Obligation, j *job, rep *ReplayReport) {
	m := map[string]any{
		"property":      prop,
		"obligation":    full,
		"kind":          ob.Kind,
		"text":          ob.Text,
		"position":      ob.Pos,
		"status":        j.res.Status,
		"solver":        j.res.Solver,
		"solver_output": j.res.Output,
		"smt_file":      j.path,
		"replay":        "no failing input was constructed; re-run the solver on smt_file to reproduce the undischarged obligation",
	}
	if j.res.Status == "sat" {
		// the solver's counterexample to the verification condition (values of the symbolic inputs and heaps)
		if src, err := os.ReadFile(j.path); err == nil {
			mp := strings.TrimSuffix(path, ".json") + ".model.smt2"
			if os.WriteFile(mp, append(src, []byte("(get-model)\n")...), 0o644) == nil {
				ctx, cancel := context.WithTimeout(context.Background(), 10*time.Second)
				out, _ := exec.CommandContext(ctx, "z3-new", "-T:8", mp).CombinedOutput()
				cancel()
				txt := string(out)
				if len(txt) > 30000 {
					txt = txt[:30000] + "\n... (truncated)"
				}
				m["solver_model"] = txt
				m["replay"] = "the solver returned a counterexample to the verification condition (solver_model); it was not replayed against the compiled code (DESIGN.md 11.6)"
			}
		}
	}
	if rep != nil {
		m["replay_on_real_code"] = rep
		if rep.Confirmed {
			m["replay"] = "the solver's counterexample was replayed on the compiled code and fails there: see replay_on_real_code (inputs, test_file, command, output)"
		}
	}
	b, _ := json.MarshalIndent(m, "", " ")
	os.WriteFile(path, b, 0o644)
}

func loadUnclaimed(path string) map[string]bool {
	out := map[string]bool{}
	f, err := os.Open(path)
	if err != nil {
		return out
	}
	defer f.Close()
	sc := bufio.NewScanner(f)
	for sc.Scan() {
		l := strings.TrimSpace(sc.Text())
		if l == "" || strings.HasPrefix(l, "#") {
			continue
		}
		out[l] = true
	}
	return out
}

// obligations.lock: lines "<prop> <obligation full name>"
func loadLock(path, prop string) []string {
	f, err := os.Open(path)
	if err != nil {
		return nil
	}
	defer f.Close()
	var out []string
	sc := bufio.NewScanner(f)
	sc.Buffer(make([]byte, 1<<20), 1<<20)
	for sc.Scan() {
		l := sc.Text()
		if strings.HasPrefix(l, prop+" ") {
			out = append(out, strings.TrimPrefix(l, prop+" "))
		}
	}
	return out
}

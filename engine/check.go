package main

func checkMain(args []string) {}

package main

// Calls: builtins, inlining, modular calls by contract, havoc of uncontracted callees.

import (
	"os"
	"sort"
	"fmt"
	"go/types"
	"strings"

	"golang.org/x/tools/go/ssa"
)

const maxInlineDepth = 12

func (fx *FnCtx) entrySort(e *modEntry) (key, srt string) {
	if e.isMap {
		mi := fx.tm.mapInfo(e.typ.Underlying().(*types.Map))
		return mi.HeapKey, mi.Sort
	}
	return fx.tm.heapKey(e.typ)
}

// havocHeaps replaces the heaps in m by fresh symbols (st modified in place). pre is the state before.
func (fx *FnCtx) havocHeaps(st *State, m *Modset) { fx.havocHeapsR(st, m, nil) }

// havocHeapsR: resolve gives the current value of local variables (for precise frames of writes through locals)
func (fx *FnCtx) havocHeapsR(st *State, m *Modset, resolve func(ssa.Value) (Term, bool)) {
	pre := st.clone()
	if m.top {
		st.base = fx.s.fresh("hb")
		st.heaps = map[string]Term{}
		for k := range st.ghost {
			st.ghost[k] = fx.s.freshConst("ghost_"+k, fx.ghostSort(k))
		}
	} else {
		for _, k := range sortedKeys(m.cells) {
			e := m.cells[k]
			key, srt := fx.entrySort(e)
			old := fx.heap(pre, key, srt)
			if e.freshOnly && os.Getenv("GOVC_NOSKIP") == "" {
				// Only cells allocated inside the region are written. Cells that do not exist yet are
				// unconstrained in the current heap term (every quantified fact about heaps is guarded by the
				// allocation counter or is a definition), so the term can stand for the heap afterwards as well:
				// what the region wrote into its new cells is whatever contracts and invariants say about them.
				continue
			}
			h := fx.s.freshConst("Hh", "(Array Ref "+srt+")")
			st.heaps[key] = h
			if !e.otherRoots && len(e.allocRoots) > 0 && resolve != nil {
				// every write to an older cell goes through one of these locals: all other cells are unchanged
				var excl []Term
				okAll := true
				for a := range e.allocRoots {
					t, ok := resolve(a)
					if !ok {
						okAll = false
						break
					}
					excl = append(excl, fmt.Sprintf("(not (= (obj r) (obj %s)))", t))
				}
				if okAll {
					sort.Strings(excl)
					fx.s.assume("true", fmt.Sprintf("(forall ((r Ref)) (! (=> (and (<= (obj r) %s) %s) (= (select %s r) (select %s r))) :pattern ((select %s r))))", pre.alloc, and(excl...), h, old, h))
					continue
				}
			}
			if !e.allFields && !e.isMap {
				// only some top-level fields of pre-existing cells may change
				if _, isStruct := e.typ.Underlying().(*types.Struct); isStruct && !isTimeTime(e.typ) {
					si := fx.tm.structInfo(e.typ)
					var parts []Term
					for i, f := range si.Fields {
						if e.fields[i] {
							continue
						}
						parts = append(parts, fmt.Sprintf("(= (%s (select %s r)) (%s (select %s r)))", f.Sel, h, f.Sel, old))
					}
					if len(parts) > 0 {
						fx.s.assume("true", fmt.Sprintf("(forall ((r Ref)) (! (=> (<= (obj r) %s) %s) :pattern ((select %s r))))", pre.alloc, and(parts...), h))
					}
				}
			}
		}
		for k := range m.ghost {
			if _, ok := st.ghost[k]; ok {
				st.ghost[k] = fx.s.freshConst("ghost_"+k, fx.ghostSort(k))
			}
		}
	}
	na := fx.s.freshConst("alloc", "Int")
	fx.s.assume("true", "(>= "+na+" "+pre.alloc+")")
	st.alloc = na
	if !m.top {
		for _, k := range sortedKeys(m.cells) {
			key, _ := fx.entrySort(m.cells[k])
			if h, ok := st.heaps[key]; ok && !m.cells[k].isMap {
				_, _ = key, h
			}
		}
	}
}

func (fr *Frame) execCall(ins ssa.Instruction, c *ssa.CallCommon, st *State) []Val {
	fx := fr.fx
	if c.IsInvoke() {
		return fr.invoke(ins, c, st)
	}
	var args []Val
	for _, a := range c.Args {
		args = append(args, fr.val(a))
	}
	switch callee := c.Value.(type) {
	case *ssa.Builtin:
		return fr.builtin(ins, callee, c, args, st)
	case *ssa.Function:
		return fr.callFunc(ins, callee, c, args, nil, st)
	case *ssa.MakeClosure:
		cv := fr.val(callee)
		return fr.callFunc(ins, cv.clo.fn, c, args, cv.clo.bindings, st)
	}
	cv := fr.val(c.Value)
	if cv.clo != nil {
		return fr.callFunc(ins, cv.clo.fn, c, args, cv.clo.bindings, st)
	}
	_ = fx
	unsupported("call through a function value loaded from memory (%s)", c.Value.Name())
	return nil
}

func (fr *Frame) resultTypes(sig *types.Signature) []types.Type {
	var out []types.Type
	for i := 0; i < sig.Results().Len(); i++ {
		out = append(out, sig.Results().At(i).Type())
	}
	return out
}

func (fr *Frame) callFunc(ins ssa.Instruction, fn *ssa.Function, c *ssa.CallCommon, args, bindings []Val, st *State) []Val {
	var before *State
	if !fr.fx.eng.isExternal(fn) {
		before = st.clone()
	}
	res := fr.callFunc1(ins, fn, c, args, bindings, st)
	if before != nil {
		if fr.callStates == nil {
			fr.callStates = map[string][]*State{}
			fr.preCallStates = map[string][]*State{}
		}
		n := fr.fx.eng.relName(fn)
		fr.callStates[n] = append(fr.callStates[n], st.clone())
		fr.preCallStates[n] = append(fr.preCallStates[n], before)
	}
	return res
}

func (fr *Frame) callFunc1(ins ssa.Instruction, fn *ssa.Function, c *ssa.CallCommon, args, bindings []Val, st *State) []Val {
	fx := fr.fx
	eng := fx.eng
	if eng.isExternal(fn) {
		return fr.external(ins, fn, c, args, st)
	}
	fc := eng.contractFor(fn)
	wantInline := fc == nil || fc.Inline || eng.isGenerated(fn)
	if fc != nil && !fc.Inline && !eng.isGenerated(fn) {
		return fr.modularCall(ins, fn, fc, args, bindings, st)
	}
	if wantInline && fx.depth < maxInlineDepth && (len(findLoops(fn)) == 0 || (fc != nil && fc.Inline)) && !fx.onStack(fn) {
		return fr.inlineCall(ins, fn, fc, args, bindings, st)
	}
	// uncontracted, not inlinable: havoc
	fx.uncontr[eng.relNameQ(fn)] = true
	fx.havocHeaps(st, eng.modset(fn))
	var res []Val
	for i, t := range fr.resultTypes(fn.Signature) {
		res = append(res, fx.havocVal(fmt.Sprintf("%s_r%d", fn.Name(), i), t, st))
	}
	return res
}

func (fx *FnCtx) onStack(fn *ssa.Function) bool {
	for _, f := range fx.stack {
		if f == fn {
			return true
		}
	}
	return false
}

func (fr *Frame) inlineCall(ins ssa.Instruction, fn *ssa.Function, fc *FuncContract, args, bindings []Val, st *State) []Val {
	fx := fr.fx
	nf := fx.newFrame(fn, false)
	nf.fc = fc
	fx.depth++
	fx.stack = append(fx.stack, fn)
	res, out := nf.run(args, bindings, st.clone())
	fx.stack = fx.stack[:len(fx.stack)-1]
	fx.depth--
	if out == nil {
		st.guard = "false"
		var zs []Val
		for _, t := range fr.resultTypes(fn.Signature) {
			zs = append(zs, Val{t: fx.tm.zero(t)})
		}
		return zs
	}
	*st = *out
	return res
}

// modularCall: the caller sees only the callee's contract.
func (fr *Frame) modularCall(ins ssa.Instruction, fn *ssa.Function, fc *FuncContract, args, bindings []Val, st *State) []Val {
	fx := fr.fx
	eng := fx.eng
	calleeName := eng.relName(fn)
	if fx.usedCallees == nil {
		fx.usedCallees = map[string]bool{}
	}
	fx.usedCallees[eng.relNameQ(fn)] = true
	env := fx.calleeEnv(fn, args, bindings)
	// preconditions
	for i, c := range fc.Requires {
		fx.s.goal(func() {
			t := fx.evalIn(c.E, env, st, st, nil).v.t
			fx.oblige("pre@call", fmt.Sprintf("%s/pre@call/%s/%d", fr.obName(), calleeName, i+1), c.Text, st, t, ins.Pos(), append(append([]string{}, fr.props()...), "C05"))
		})
	}
	pre := st.clone()
	// effects
	m := eng.modset(fn)
	if fc.Assigns != nil {
		locs := fx.resolveAssigns(fc, env, pre)
		fx.checkCalleeFrame(fr, ins, st, calleeName, locs, m)
		fx.havocWithFrame(st, pre, m, locs)
		// the new values of the assigned fields are values read from memory at this point: well formed for the
		// allocation counter reached now (they cannot refer to objects allocated later)
		for _, key := range sortedKeys(locs.byKey) {
			for _, l := range locs.byKey[key] {
				if l.kind != "cell" || l.field < 0 {
					continue
				}
				if _, isStruct := l.typ.Underlying().(*types.Struct); !isStruct || isTimeTime(l.typ) {
					continue
				}
				si := fx.tm.structInfo(l.typ)
				_, srt := fx.tm.heapKey(l.typ)
				f := si.Fields[l.field]
				v := fmt.Sprintf("(%s (select %s %s))", f.Sel, fx.heap(st, key, srt), l.ref)
				for _, w := range fx.wfFacts(st, f.Type, v, 0) {
					fx.s.assume(st.guard, w)
				}
			}
		}
	} else {
		fx.checkCalleeFrame(fr, ins, st, calleeName, nil, m)
		fx.havocHeaps(st, m)
	}
	// results
	var res []Val
	rts := fr.resultTypes(fn.Signature)
	for i, t := range rts {
		res = append(res, fx.havocVal(fmt.Sprintf("%s_r%d", fn.Name(), i), t, st))
	}
	fx.bindResults(env, fn, res)
	fx.assumeMode = true
	for _, c := range fc.TrustedEnsures {
		fx.trusted["assumed postcondition of "+calleeName+" (not checked against its body): "+c.Text] = true
		fx.s.assume(st.guard, fx.evalIn(c.E, env, st, pre, nil).v.t)
	}
	for _, c := range fc.Ensures {
		t, ok := fx.tryEval(c.E, env, st, pre)
		if !ok {
			continue // clause refers to the callee's internals (athead/atcall): not visible to callers
		}
		fx.s.assume(st.guard, t)
	}
	fx.assumeMode = false
	return res
}

func (fx *FnCtx) tryEval(e Expr, env map[string]SVal, st, pre *State) (t Term, ok bool) {
	savedQuant := fx.s.inQuant
	defer func() {
		if r := recover(); r != nil {
			fx.s.inQuant = savedQuant
			if ue, isU := r.(*UnsupportedError); isU && (strings.Contains(ue.msg, "athead()") || strings.Contains(ue.msg, "atcall()") || strings.Contains(ue.msg, "unknown identifier")) {
				fx.assump["a postcondition of a callee that refers to the callee's local state is not visible to its callers: "+ue.msg] = true
				ok = false
				return
			}
			panic(r)
		}
	}()
	return fx.evalIn(e, env, st, pre, nil).v.t, true
}

func (fx *FnCtx) calleeEnv(fn *ssa.Function, args, bindings []Val) map[string]SVal {
	env := map[string]SVal{}
	for i, p := range fn.Params {
		env[p.Name()] = SVal{v: args[i], typ: p.Type()}
	}
	for i, fv := range fn.FreeVars {
		// free variables are addresses of captured variables: expose the variable by name (dereferenced lazily)
		env["&"+fv.Name()] = SVal{v: bindings[i], typ: fv.Type()}
	}
	return env
}

func (fx *FnCtx) bindResults(env map[string]SVal, fn *ssa.Function, res []Val) {
	rs := fn.Signature.Results()
	shadowed := false
	for _, fv := range fn.FreeVars {
		if fv.Name() == "result" {
			shadowed = true
		}
	}
	for _, p := range fn.Params {
		if p.Name() == "result" {
			shadowed = true
		}
	}
	if rs.Len() == 1 {
		env["ret"] = SVal{v: res[0], typ: rs.At(0).Type()}
		if !shadowed {
			env["result"] = SVal{v: res[0], typ: rs.At(0).Type()}
		}
	}
	for i := 0; i < rs.Len(); i++ {
		env[fmt.Sprintf("result.%d", i)] = SVal{v: res[i], typ: rs.At(i).Type()}
		if n := rs.At(i).Name(); n != "" && n != "_" {
			if _, clash := env[n]; !clash {
				env[n] = SVal{v: res[i], typ: rs.At(i).Type()}
			}
		}
	}
}

// ---------------------------------------------------------------------------------------------
// interface method calls: closed world over the repository's implementations

func (fr *Frame) invoke(ins ssa.Instruction, c *ssa.CallCommon, st *State) []Val {
	fx := fr.fx
	eng := fx.eng
	recv := fr.val(c.Value)
	var args []Val
	for _, a := range c.Args {
		args = append(args, fr.val(a))
	}
	fr.safety("safe:nil", ins, fr.describe(c.Value)+"."+c.Method.Name(), st, not(eq(recv.t, "niliface")))
	if res, ok := fr.externalInvoke(ins, c, recv, args, st); ok {
		return res
	}
	impls := eng.implementations(c.Value.Type(), c.Method)
	if len(impls) == 0 {
		unsupported("interface call %s.%s with no known implementation", c.Value.Type(), c.Method.Name())
	}
	sig := c.Method.Type().(*types.Signature)
	rts := fr.resultTypes(sig)
	// dispatch on the dynamic type tag: run each implementation on a copy of the state and merge
	type outcome struct {
		g   Term
		res []Val
		st  *State
	}
	var outs []outcome
	var tagConds []Term
	for _, impl := range impls {
		rt := impl.Signature.Recv().Type()
		tag := fx.tm.typeTag(rt)
		cond := fmt.Sprintf("(= (itag %s) %d)", recv.t, tag)
		tagConds = append(tagConds, cond)
		bs := st.clone()
		bs.guard = fx.s.define("dg", "Bool", and(st.guard, cond))
		rv := Val{t: fx.s.define("recv", fx.tm.sortOf(rt), fx.unbox(recv.t, rt))}
		fx.assumeOld(bs, rt, rv.t)
		cargs := append([]Val{rv}, args...)
		res := fr.callFunc(ins, impl, c, cargs, nil, bs)
		outs = append(outs, outcome{bs.guard, res, bs})
	}
	// closed world assumption
	fx.assump["closed world: interface "+typeKey(c.Value.Type())+" is implemented only by the repository's own types"] = true
	fx.s.assume(st.guard, or(tagConds...))
	// merge
	fake := &Frame{fx: fx, fn: fr.fn}
	for _, o := range outs {
		if o.st.guard == "false" {
			continue
		}
		fake.rets = append(fake.rets, retInfo{guard: o.g, vals: o.res, st: o.st})
	}
	if len(fake.rets) == 0 {
		st.guard = "false"
		var zs []Val
		for _, t := range rts {
			zs = append(zs, Val{t: fx.tm.zero(t)})
		}
		return zs
	}
	res, out := fake.mergeRetsTyped(rts)
	*st = *out
	return res
}

func (fr *Frame) mergeRetsTyped(rts []types.Type) ([]Val, *State) {
	// wrap mergeRets with explicit result types
	vars := make([]*types.Var, len(rts))
	for i, t := range rts {
		vars[i] = types.NewVar(0, nil, "", t)
	}
	sig := types.NewSignatureType(nil, nil, nil, nil, types.NewTuple(vars...), false)
	fr.sigOverride = sig
	return fr.mergeRets()
}

// ---------------------------------------------------------------------------------------------
// builtins

func (fr *Frame) builtin(ins ssa.Instruction, b *ssa.Builtin, c *ssa.CallCommon, args []Val, st *State) []Val {
	fx := fr.fx
	switch b.Name() {
	case "len":
		switch t := c.Args[0].Type().Underlying().(type) {
		case *types.Slice:
			return []Val{{t: "(slen " + args[0].t + ")"}}
		case *types.Basic:
			return []Val{{t: "(str.len " + args[0].t + ")"}}
		case *types.Map:
			mi := fx.tm.mapInfo(t)
			fx.s.global("card_"+sanitize(mi.KeySort), fmt.Sprintf("(declare-fun card_%s ((Array %s Bool)) Int)", sanitize(mi.KeySort), mi.KeySort))
			h := fx.heap(st, mi.HeapKey, mi.Sort)
			v := fx.s.define("maplen", "Int", fmt.Sprintf("(ite (= %s nilref) 0 (card_%s (%s (select %s %s))))", args[0].t, sanitize(mi.KeySort), mi.Dom, h, args[0].t))
			fx.s.assume(st.guard, "(>= "+v+" 0)")
			return []Val{{t: v}}
		case *types.Array:
			return []Val{{t: fmt.Sprint(t.Len())}}
		case *types.Pointer:
			return []Val{{t: fmt.Sprint(t.Elem().Underlying().(*types.Array).Len())}}
		}
	case "cap":
		if _, ok := c.Args[0].Type().Underlying().(*types.Slice); ok {
			return []Val{{t: "(scap " + args[0].t + ")"}}
		}
	case "append":
		return []Val{fr.doAppend(ins, c, args, st)}
	case "delete":
		mt := c.Args[0].Type().Underlying().(*types.Map)
		mi := fx.tm.mapInfo(mt)
		h := fx.heap(st, mi.HeapKey, mi.Sort)
		cell := "(select " + h + " " + args[0].t + ")"
		k := fx.encode(args[1], c.Args[1].Type())
		ncell := fmt.Sprintf("(%s (store (%s %s) %s false) (%s %s))", mi.Ctor, mi.Dom, cell, k, mi.Val, cell)
		nh := ite(eq(args[0].t, "nilref"), h, "(store "+h+" "+args[0].t+" "+ncell+")")
		fx.setHeap(st, mi.HeapKey, mi.Sort, nh)
		return nil
	case "print", "println":
		return nil
	case "min", "max":
		if len(args) == 2 && isInteger(c.Args[0].Type()) {
			op := "<="
			if b.Name() == "max" {
				op = ">="
			}
			return []Val{{t: fmt.Sprintf("(ite (%s %s %s) %s %s)", op, args[0].t, args[1].t, args[0].t, args[1].t)}}
		}
	case "ssa:wrapnilchk":
		fr.safety("safe:nil", ins, fr.describe(c.Args[0]), st, not(eq(args[0].t, "nilref")))
		return []Val{args[0]}
	}
	unsupported("builtin %s on %s", b.Name(), c.Args[0].Type())
	return nil
}

// append(s, t...) : in place when it fits, otherwise a fresh backing array with the prefix copied.
func (fr *Frame) doAppend(ins ssa.Instruction, c *ssa.CallCommon, args []Val, st *State) Val {
	fx := fr.fx
	stype := c.Args[0].Type().Underlying().(*types.Slice)
	et := stype.Elem()
	key, srt := fx.tm.heapKey(et)
	s := args[0].t
	if isString(c.Args[1].Type()) {
		unsupported("append([]byte, string...)")
	}
	t := args[1].t
	h := fx.heap(st, key, srt)
	n := "(slen " + t + ")"
	// statically known single element (varargs array of length 1)?
	k := -1
	if sl, ok := c.Args[1].(*ssa.Slice); ok {
		if al, ok := sl.X.(*ssa.Alloc); ok && sl.Low == nil && sl.High == nil {
			if arr, ok := al.Type().Underlying().(*types.Pointer).Elem().Underlying().(*types.Array); ok {
				k = int(arr.Len())
			}
		}
	}
	if cst, ok := c.Args[1].(*ssa.Const); ok && cst.Value == nil {
		k = 0
	}
	if k == 0 {
		return Val{t: s}
	}
	newLen := fx.s.define("newlen", "Int", "(+ (slen "+s+") "+n+")")
	fits := fx.s.define("fits", "Bool", "(<= "+newLen+" (scap "+s+"))")
	// frame: in-place writes go to cells of s's backing array beyond len
	fx.frameCheckAppend(fr, ins, st, s, fits, et, fr.describe(c.Args[0]))
	// in-place heap
	var hin Term
	if k > 0 {
		hin = h
		for j := 0; j < k; j++ {
			hin = fmt.Sprintf("(store %s (mkref (sobj %s) (+ (soff %s) (slen %s) %d)) (select %s (mkref (sobj %s) (+ (soff %s) %d))))", hin, s, s, s, j, h, t, t, j)
		}
	} else {
		hi := fx.s.freshConst("Hin", "(Array Ref "+srt+")")
		fx.s.assume("true", fmt.Sprintf("(forall ((r Ref)) (! (= (select %s r) (ite (and (= (obj r) (sobj %s)) (<= (+ (soff %s) (slen %s)) (idx r)) (< (idx r) (+ (soff %s) %s))) (select %s (mkref (sobj %s) (+ (soff %s) (- (idx r) (soff %s) (slen %s))))) (select %s r))) :pattern ((select %s r))))",
			hi, s, s, s, s, newLen, h, t, t, s, s, h, hi))
		hin = hi
	}
	// re-allocating heap
	ref := fx.allocRef(st, "0")
	o := fx.s.define("newobj", "Int", "(obj "+ref+")")
	ncap := fx.s.freshConst("newcap", "Int")
	fx.s.assume("true", "(>= "+ncap+" "+newLen+")")
	hre := fx.s.freshConst("Hre", "(Array Ref "+srt+")")
	fx.s.assume("true", fmt.Sprintf("(forall ((r Ref)) (! (and (=> (not (= (obj r) %s)) (= (select %s r) (select %s r))) (=> (and (= (obj r) %s) (<= 0 (idx r)) (< (idx r) (slen %s))) (= (select %s r) (select %s (elemref %s (idx r))))) (=> (and (= (obj r) %s) (<= (slen %s) (idx r)) (< (idx r) %s)) (= (select %s r) (select %s (elemref %s (- (idx r) (slen %s))))))) :pattern ((select %s r))))",
		o, hre, h, o, s, hre, h, s, o, s, newLen, hre, h, t, s, hre))
	fx.setHeap(st, key, srt, ite(fits, hin, hre))
	res := fmt.Sprintf("(ite %s (mkslice (sobj %s) (soff %s) %s (scap %s)) (mkslice %s 0 %s %s))", fits, s, s, newLen, s, o, newLen, ncap)
	return Val{t: res}
}

func describeCall(c *ssa.CallCommon) string {
	if f := c.StaticCallee(); f != nil {
		return f.Name()
	}
	return strings.TrimSpace(c.Value.Name())
}

#!/bin/bash
# Bounded stand-ins (labelled bounded; never counted among obligations/discharged). usage: run.sh <property> <quick|thorough>
# They run the real code of /repo's working tree through `go test -overlay` (nothing is written to /repo) and append
# their measured case counts to the evidence file of the property under coverage.bounded_standin_runs.
prop=$1; tier=${2:-quick}
here=$(cd "$(dirname "$0")" && pwd)
verif=$(dirname "$here")
repo=${REPO:-/repo}
export GOFLAGS=-mod=mod GOPROXY=off GOSUMDB=off GOTOOLCHAIN=local STANDIN_TIER=$tier
case $prop in
  C01) tests="TestStandinGtfsTime|TestStandinArchivePresentation"; pkgs="." ;;
  C03) tests="TestStandinParentForest"; pkgs="." ;;
  C05) tests="TestStandinParentForest|TestStandinGtfsTime"; pkgs="." ;;
  C16) tests="TestStandinOriginTime"; pkgs="./extensions/nycttrips" ;;
  *) exit 0 ;;
esac
mkdir -p "$verif/replays"
export STANDIN_REPLAY_DIR=$(mktemp -d "$verif/replays/standin-$prop-XXXXXX")
ov=$(mktemp /var/tmp/verif-standin-ov.XXXXXX.json)
cat > "$ov" <<JSON
{"Replace": {
 "$repo/zz_standins_test.go": "$here/gtfs_standins_test.go",
 "$repo/extensions/nycttrips/zz_standins_test.go": "$here/nycttrips_standins_test.go"
}}
JSON
out=$(cd "$repo" && go test -overlay "$ov" -vet=off -count=1 -timeout 900s -v -run "^($tests)\$" $pkgs 2>&1 | grep -v "^Skipping\|^20[0-9][0-9]/\|^Ignoring\|^Shape ")
rm -f "$ov"
rc=0
lines=$(echo "$out" | grep -o "STANDIN .*")
if echo "$out" | grep -q "^--- FAIL\|^FAIL\|panic:"; then
  rc=1
  f=$(ls "$STANDIN_REPLAY_DIR"/*.txt 2>/dev/null | head -1)
  if [ -z "$f" ]; then f="$STANDIN_REPLAY_DIR/output.txt"; echo "$out" | tail -50 > "$f"; fi
  echo "VIOLATION property=$prop replay=$f"
  echo "  bounded stand-in failed on the real code: $(echo "$out" | grep -m1 -A2 '^    \|^--- FAIL' | tr '\n' ' ' | cut -c1-300)"
else
  rmdir "$STANDIN_REPLAY_DIR" 2>/dev/null
fi
if ! echo "$out" | grep -q "^ok\|^--- PASS\|^--- FAIL\|^FAIL"; then
  echo "CHECK-BROKEN property=$prop bounded stand-ins did not run: $(echo "$out" | tail -3 | tr '\n' ' ' | cut -c1-300)"
  rc=2
fi
ev="$verif/evidence/$prop.json"
if [ -f "$ev" ] && [ -z "${STANDIN_NO_EVIDENCE:-}" ]; then
  tmp=$(mktemp /var/tmp/verif-ev.XXXXXX)
  jq --arg lines "$lines" --arg rc "$rc" '.coverage.bounded_standin_runs = {"label":"bounded (stated bound per line; not counted among obligations or discharged)","passed": ($rc=="0"), "runs": ($lines | split("\n") | map(select(length>0)))}' "$ev" > "$tmp" && cat "$tmp" > "$ev"
  rm -f "$tmp"
fi
echo "standins property=$prop tier=$tier $(echo "$lines" | tr '\n' ';') rc=$rc"
exit $rc

// Bounded stand-ins for package gtfs (injected with `go test -overlay`; nothing is written to /repo).
// They accompany the deductive checks and are labelled "bounded" in the evidence; none of them is counted as proof.
package gtfs

import (
	"archive/zip"
	"bytes"
	"fmt"
	"os"
	"reflect"
	"strings"
	"testing"
	"time"
)

func sinZip(t *testing.T, names []string, files map[string]string, method uint16) []byte {
	t.Helper()
	var b bytes.Buffer
	w := zip.NewWriter(&b)
	for _, name := range names {
		fw, err := w.CreateHeader(&zip.FileHeader{Name: name, Method: method})
		if err != nil {
			t.Fatal(err)
		}
		if _, err := fw.Write([]byte(files[name])); err != nil {
			t.Fatal(err)
		}
	}
	if err := w.Close(); err != nil {
		t.Fatal(err)
	}
	return b.Bytes()
}

func sinBound(def int) int {
	if os.Getenv("STANDIN_TIER") == "thorough" {
		return def + 1
	}
	return def
}

func sinFail(t *testing.T, name, input, msg string) {
	t.Helper()
	if dir := os.Getenv("STANDIN_REPLAY_DIR"); dir != "" {
		_ = os.WriteFile(dir+"/"+name+".txt", []byte(msg+"\n--- input ---\n"+input+"\n"), 0o644)
	}
	t.Fatalf("%s: %s\ninput:\n%s", name, msg, input)
}

// parent-forest (C03, C05): every assignment of parent_station in {blank, each stop id, one dangling id} to n stops,
// plus one duplicated id; the real ParseStatic must return a forest whose links are elements of Stops named by the row.
func TestStandinParentForest(t *testing.T) {
	maxN := sinBound(4)
	cases := 0
	for n := 1; n <= maxN; n++ {
		choices := n + 2
		total := 1
		for i := 0; i < n; i++ {
			total *= choices
		}
		for code := 0; code < total; code++ {
			for dup := 0; dup < 2; dup++ {
				var sb strings.Builder
				sb.WriteString("stop_id,parent_station\n")
				parents := make([]string, n)
				c := code
				for i := 0; i < n; i++ {
					k := c % choices
					c /= choices
					switch {
					case k == 0:
						parents[i] = ""
					case k == n+1:
						parents[i] = "ghost"
					default:
						parents[i] = fmt.Sprintf("s%d", k-1)
					}
					fmt.Fprintf(&sb, "s%d,%s\n", i, parents[i])
				}
				if dup == 1 {
					if n < 2 {
						continue
					}
					sb.WriteString("s0,s1\n") // a second row with the id of the first stop
				}
				stopsTxt := sb.String()
				files := map[string]string{
					"agency.txt":     "agency_id,agency_name,agency_url,agency_timezone\na,b,c,UTC\n",
					"routes.txt":     "route_id,route_type\n",
					"stops.txt":      stopsTxt,
					"trips.txt":      "route_id,service_id,trip_id\n",
					"stop_times.txt": "stop_id,trip_id,stop_sequence\n",
				}
				done := make(chan *Static, 1)
				go func() {
					s, err := ParseStatic(sinZip(t, []string{"agency.txt", "routes.txt", "stops.txt", "trips.txt", "stop_times.txt"}, files, zip.Deflate), ParseStaticOptions{})
					if err != nil {
						done <- nil
						return
					}
					done <- s
				}()
				var static *Static
				select {
				case static = <-done:
				case <-time.After(20 * time.Second):
					sinFail(t, "parent-forest", stopsTxt, "ParseStatic does not return (non-terminating ancestor walk?)")
				}
				if static == nil {
					sinFail(t, "parent-forest", stopsTxt, "ParseStatic failed")
				}
				cases++
				for i := range static.Stops {
					steps := 0
					for s := &static.Stops[i]; s != nil; s = s.Parent {
						if steps > len(static.Stops) {
							sinFail(t, "parent-forest", stopsTxt, fmt.Sprintf("stop %q is its own ancestor", static.Stops[i].Id))
						}
						steps++
						if s.Parent == nil {
							continue
						}
						found := false
						for j := range static.Stops {
							if s.Parent == &static.Stops[j] {
								found = true
							}
						}
						if !found {
							sinFail(t, "parent-forest", stopsTxt, fmt.Sprintf("parent of %q is not an element of Static.Stops", s.Id))
						}
					}
					if dup == 0 {
						p := static.Stops[i].Parent
						if p != nil && p.Id != parents[i] {
							sinFail(t, "parent-forest", stopsTxt, fmt.Sprintf("parent of %q is %q, the row names %q", static.Stops[i].Id, p.Id, parents[i]))
						}
						if p == nil && parents[i] != "" && parents[i] != "ghost" {
							// a named, existing parent may only be refused when it would close a cycle
							closes := false
							seen := 0
							for q := stopByID(static, parents[i]); q != nil && seen <= len(static.Stops); q = q.Parent {
								if q == &static.Stops[i] {
									closes = true
								}
								seen++
							}
							if !closes {
								sinFail(t, "parent-forest", stopsTxt, fmt.Sprintf("stop %q lost its parent %q although no cycle would arise", static.Stops[i].Id, parents[i]))
							}
						}
					}
				}
			}
		}
	}
	t.Logf("STANDIN parent-forest bound=n<=%d cases=%d", maxN, cases)
}

func stopByID(s *Static, id string) *Stop {
	for i := range s.Stops {
		if s.Stops[i].Id == id {
			return &s.Stops[i]
		}
	}
	return nil
}

// gtfs-time (C01, C05): parseGtfsTimeToDuration on every H:MM:SS with H < 48 (one or two digit hours), against
// (H*60+MM)*60+SS seconds; plus rejected shapes.
func TestStandinGtfsTime(t *testing.T) {
	cases := 0
	for h := 0; h < 48; h++ {
		for m := 0; m < 60; m++ {
			for s := 0; s < 60; s++ {
				want := time.Duration((h*60+m)*60+s) * time.Second
				for _, txt := range []string{fmt.Sprintf("%d:%02d:%02d", h, m, s), fmt.Sprintf("%02d:%02d:%02d", h, m, s)} {
					got, ok := parseGtfsTimeToDuration(txt)
					cases++
					if !ok || got != want {
						sinFail(t, "gtfs-time", txt, fmt.Sprintf("got (%v,%v), want (%v,true)", got, ok, want))
					}
				}
			}
		}
	}
	for _, txt := range []string{"", "a", "1:2:3:4", "12:00:0x", "-1:00:00", "1;00;00"} {
		if _, ok := parseGtfsTimeToDuration(txt); ok {
			sinFail(t, "gtfs-time", txt, "accepted, want rejected")
		}
		cases++
	}
	t.Logf("STANDIN gtfs-time bound=H<48 cases=%d", cases)
}

// archive-presentation (C01): one small feed in many byte-level presentations (column permutations of each file,
// an unknown extra column, an unknown extra file, BOM, CRLF, quoting, stored vs deflated, member order) must parse to
// the same Static as the plain presentation, and that one must hold the written values.
func TestStandinArchivePresentation(t *testing.T) {
	type table struct {
		name   string
		header []string
		rows   [][]string
	}
	tables := []table{
		{"agency.txt", []string{"agency_id", "agency_name", "agency_url", "agency_timezone"}, [][]string{{"a1", "Agency, One", "http://a", "America/New_York"}, {"a2", "Two", "http://b", "UTC"}}},
		{"routes.txt", []string{"route_id", "agency_id", "route_short_name", "route_type", "route_color", "route_text_color"}, [][]string{{"r1", "a1", "1", "1", "FF0000", "00FF00"}, {"r2", "a2", "2", "3", "FFFFFF", "000000"}}},
		{"stops.txt", []string{"stop_id", "stop_name", "stop_lat", "stop_lon", "location_type", "parent_station", "wheelchair_boarding"}, [][]string{{"st", "Station \"X\"", "40.5", "-73.25", "1", "", "1"}, {"p1", "Platform", "40.6", "-73.5", "0", "st", "0"}, {"p2", "Other", "1", "2", "0", "", "2"}}},
		{"calendar.txt", []string{"service_id", "monday", "tuesday", "wednesday", "thursday", "friday", "saturday", "sunday", "start_date", "end_date"}, [][]string{{"sv", "1", "0", "1", "0", "1", "0", "1", "20240101", "20240131"}}},
		{"calendar_dates.txt", []string{"service_id", "date", "exception_type"}, [][]string{{"sv", "20240215", "1"}, {"sv", "20231225", "2"}, {"sx", "20240301", "1"}}},
		{"trips.txt", []string{"route_id", "service_id", "trip_id", "trip_headsign", "direction_id", "wheelchair_accessible", "bikes_allowed"}, [][]string{{"r1", "sv", "t1", "Head", "1", "1", "2"}, {"r2", "sx", "t2", "", "0", "0", "0"}}},
		{"stop_times.txt", []string{"trip_id", "arrival_time", "departure_time", "stop_id", "stop_sequence", "pickup_type", "drop_off_type", "timepoint"}, [][]string{{"t1", "25:01:02", "25:02:03", "p1", "2", "0", "1", "1"}, {"t1", "8:00:00", "8:00:30", "p2", "1", "2", "0", "0"}, {"t2", "00:00:00", "00:00:00", "p2", "7", "0", "0", "1"}}},
		{"transfers.txt", []string{"from_stop_id", "to_stop_id", "transfer_type", "min_transfer_time"}, [][]string{{"p1", "p2", "2", "120"}}},
	}
	render := func(tb table, perm []int, crlf, quoteAll, bom bool, extraCol bool) string {
		nl := "\n"
		if crlf {
			nl = "\r\n"
		}
		cell := func(s string) string {
			if quoteAll || strings.ContainsAny(s, ",\"") {
				return "\"" + strings.ReplaceAll(s, "\"", "\"\"") + "\""
			}
			return s
		}
		var sb strings.Builder
		if bom {
			sb.WriteString("\xEF\xBB\xBF")
		}
		line := func(cells []string, extra string) {
			var out []string
			for _, j := range perm {
				out = append(out, cell(cells[j]))
			}
			if extraCol {
				out = append([]string{cell(extra)}, out...)
			}
			sb.WriteString(strings.Join(out, ",") + nl)
		}
		line(tb.header, "zz_unknown_column")
		for _, r := range tb.rows {
			line(r, "junk")
		}
		return sb.String()
	}
	ident := func(n int) []int {
		p := make([]int, n)
		for i := range p {
			p[i] = i
		}
		return p
	}
	build := func(mut func(files map[string]string, names *[]string), method uint16) []byte {
		files := map[string]string{}
		var names []string
		for _, tb := range tables {
			files[tb.name] = render(tb, ident(len(tb.header)), false, false, false, false)
			names = append(names, tb.name)
		}
		if mut != nil {
			mut(files, &names)
		}
		return sinZip(t, names, files, method)
	}
	base, err := ParseStatic(build(nil, zip.Deflate), ParseStaticOptions{})
	if err != nil {
		t.Fatal(err)
	}
	// the plain presentation holds the written values (spot checks of every decoder family)
	ny, _ := time.LoadLocation("America/New_York")
	if len(base.Agencies) != 2 || base.Agencies[0].Name != "Agency, One" || len(base.Routes) != 2 || len(base.Stops) != 3 || len(base.Trips) != 2 || len(base.Transfers) != 1 {
		sinFail(t, "archive-presentation", "base", fmt.Sprintf("entity counts: %d agencies %d routes %d stops %d trips %d transfers", len(base.Agencies), len(base.Routes), len(base.Stops), len(base.Trips), len(base.Transfers)))
	}
	var t1 *ScheduledTrip
	for i := range base.Trips {
		if base.Trips[i].ID == "t1" {
			t1 = &base.Trips[i]
		}
	}
	if t1 == nil || len(t1.StopTimes) != 2 || t1.StopTimes[1].ArrivalTime != 25*time.Hour+time.Minute+2*time.Second || t1.StopTimes[0].DepartureTime != 8*time.Hour+30*time.Second || t1.StopTimes[0].Stop.Id != "p2" {
		sinFail(t, "archive-presentation", "base", "stop times of t1 do not carry the written values")
	}
	if *base.Stops[0].Longitude != -73.25 || base.Stops[0].Name != "Station \"X\"" || base.Stops[1].Parent != &base.Stops[0] {
		sinFail(t, "archive-presentation", "base", "stops do not carry the written values")
	}
	for _, sv := range base.Services {
		if sv.Id == "sv" {
			if !sv.StartDate.Equal(time.Date(2023, 12, 25, 0, 0, 0, 0, ny)) || !sv.EndDate.Equal(time.Date(2024, 2, 15, 0, 0, 0, 0, ny)) || !sv.Monday || sv.Tuesday {
				sinFail(t, "archive-presentation", "base", fmt.Sprintf("service sv: %+v", sv))
			}
		}
	}
	cases := 0
	check := func(desc string, content []byte) {
		got, err := ParseStatic(content, ParseStaticOptions{})
		cases++
		if err != nil {
			sinFail(t, "archive-presentation", desc, "ParseStatic failed: "+err.Error())
		}
		if !reflect.DeepEqual(got, base) {
			sinFail(t, "archive-presentation", desc, "result differs from the plain presentation of the same tables")
		}
	}
	for ti, tb := range tables {
		tb := tb
		n := len(tb.header)
		// rotations and the reversal of the columns of one file at a time
		var perms [][]int
		for r := 1; r < n; r++ {
			p := make([]int, n)
			for i := range p {
				p[i] = (i + r) % n
			}
			perms = append(perms, p)
		}
		rev := make([]int, n)
		for i := range rev {
			rev[i] = n - 1 - i
		}
		perms = append(perms, rev)
		for _, p := range perms {
			p := p
			check(fmt.Sprintf("%s columns %v", tb.name, p), build(func(f map[string]string, _ *[]string) { f[tb.name] = render(tb, p, false, false, false, false) }, zip.Deflate))
		}
		for v := 0; v < 16; v++ {
			crlf, quote, bom, extra := v&1 != 0, v&2 != 0, v&4 != 0, v&8 != 0
			check(fmt.Sprintf("%s crlf=%v quote=%v bom=%v extra=%v", tb.name, crlf, quote, bom, extra), build(func(f map[string]string, _ *[]string) {
				f[tb.name] = render(tb, ident(n), crlf, quote, bom, extra)
			}, zip.Deflate))
		}
		_ = ti
	}
	check("stored", build(nil, zip.Store))
	check("reversed member order", build(func(_ map[string]string, names *[]string) {
		for i, j := 0, len(*names)-1; i < j; i, j = i+1, j-1 {
			(*names)[i], (*names)[j] = (*names)[j], (*names)[i]
		}
	}, zip.Deflate))
	check("unknown extra file", build(func(f map[string]string, names *[]string) {
		f["zz_unknown.txt"] = "a,b\n1,2\n"
		*names = append([]string{"zz_unknown.txt"}, *names...)
	}, zip.Deflate))
	// extra members whose names merely resemble a table: in a sub-directory, in another case, with a suffix. They
	// must never stand in for (or override) a table, whether or not the archive root has that table.
	decoy := "stop_id,stop_name\nDECOY,decoy\n"
	for _, extraName := range []string{"old/stops.txt", "feed/stops.txt", "STOPS.TXT", "stops.txt.bak", "./stops.txt", "a/b/transfers.txt"} {
		extraName := extraName
		for _, first := range []bool{true, false} {
			first := first
			check(fmt.Sprintf("extra member %q (first=%v)", extraName, first), build(func(f map[string]string, names *[]string) {
				f[extraName] = decoy
				if first {
					*names = append([]string{extraName}, *names...)
				} else {
					*names = append(*names, extraName)
				}
			}, zip.Deflate))
		}
	}
	dropTransfers := func(f map[string]string, names *[]string) {
		delete(f, "transfers.txt")
		var kept []string
		for _, n := range *names {
			if n != "transfers.txt" {
				kept = append(kept, n)
			}
		}
		*names = kept
	}
	{
		base2, err := ParseStatic(build(dropTransfers, zip.Deflate), ParseStaticOptions{})
		if err != nil {
			sinFail(t, "archive-presentation", "feed without transfers.txt", "ParseStatic failed: "+err.Error())
		}
		for _, extraName := range []string{"previous/transfers.txt", "TRANSFERS.TXT", "x/y/transfers.txt"} {
			extraName := extraName
			cases++
			got, err := ParseStatic(build(func(f map[string]string, names *[]string) {
				dropTransfers(f, names)
				f[extraName] = "from_stop_id,to_stop_id,transfer_type\nst,p2,2\n"
				*names = append(*names, extraName)
			}, zip.Deflate), ParseStaticOptions{})
			desc := fmt.Sprintf("no transfers.txt at the root, extra member %q", extraName)
			if err != nil {
				sinFail(t, "archive-presentation", desc, "ParseStatic failed: "+err.Error())
			}
			if !reflect.DeepEqual(got, base2) {
				sinFail(t, "archive-presentation", desc, "the extra member changed the result (an optional table absent from the root must stay absent)")
			}
		}
	}
	check("no trailing newline", build(func(f map[string]string, _ *[]string) {
		for k, v := range f {
			f[k] = strings.TrimSuffix(v, "\n")
		}
	}, zip.Deflate))
	t.Logf("STANDIN archive-presentation bound=1 feed x %d presentations cases=%d", cases, cases)
}

// Bounded stand-in for package nycttrips (C16): exhaustive over the finite domain of the six-digit origin time.
package nycttrips

import (
	"fmt"
	"os"
	"testing"

	gtfsrt "github.com/jamespfennell/gtfs/proto"
	"google.golang.org/protobuf/proto"
)

func TestStandinOriginTime(t *testing.T) {
	step := 3
	if os.Getenv("STANDIN_TIER") == "thorough" {
		step = 1
	}
	ext := Extension(ExtensionOpts{})
	cases := 0
	for v := 0; v < 1000000; v += step {
		id := fmt.Sprintf("%06d_1..N03R", v)
		td := &gtfsrt.TripDescriptor{TripId: &id}
		proto.SetExtension(td, gtfsrt.E_NyctTripDescriptor, &gtfsrt.NyctTripDescriptor{})
		tu := &gtfsrt.TripUpdate{Trip: td}
		ext.UpdateTrip(tu, 0)
		secs := (v * 6) / 10
		want := fmt.Sprintf("%02d:%02d:%02d", secs/3600, (secs/60)%60, secs%60)
		cases++
		if td.StartTime == nil || *td.StartTime != want {
			got := "<nil>"
			if td.StartTime != nil {
				got = *td.StartTime
			}
			if dir := os.Getenv("STANDIN_REPLAY_DIR"); dir != "" {
				_ = os.WriteFile(dir+"/origin-time.txt", []byte(fmt.Sprintf("trip id %s: start time %s, want %s\n", id, got, want)), 0o644)
			}
			t.Fatalf("trip id %s: start time %s, want %s", id, got, want)
		}
	}
	t.Logf("STANDIN origin-time bound=000000..999999 step %d cases=%d", step, cases)
}
